(* Proofs/FramedFacts.v — specifications, invariants and lemmas about Model/Framed.v
   (read half: C13, write half: C14). *)
From AN Require Import Model.Lines Model.Framed Proofs.LinesFacts.
From Coq Require Import Lia.

(* ===================================================================================== *)
(* Read half                                                                             *)
(* ===================================================================================== *)

(* "call the decoder again and again until it says None": the frames it yields, in order, and
   the buffer it leaves.  This is the reference the property is stated against; it does not
   mention Framed. *)
Inductive decodes {A : Type} (f : list Z -> option A * list Z) : list Z -> list A -> list Z -> Prop :=
| dec_none b r : f b = (None, r) -> decodes f b [] r
| dec_some b a r l r' : f b = (Some a, r) -> decodes f r l r' -> decodes f b (a :: l) r'.

Lemma decodes_inv_some {A} (f : list Z -> option A * list Z) b a r its r' :
  f b = (Some a, r) -> decodes f b its r' -> exists l, its = a :: l /\ decodes f r l r'.
Proof.
  intros E H. inversion H as [b0 r0 E0|b0 a0 r0 l r0' E0 H0]; subst; rewrite E in E0.
  - discriminate.
  - injection E0 as <- <-. eauto.
Qed.

Lemma decodes_inv_none {A} (f : list Z -> option A * list Z) b r its r' :
  f b = (None, r) -> decodes f b its r' -> its = [] /\ r' = r.
Proof.
  intros E H. inversion H as [b0 r0 E0|b0 a0 r0 l r0' E0 H0]; subst; rewrite E in E0.
  - injection E0 as <-. auto.
  - discriminate.
Qed.

Lemma decodes_fun {A} (f : list Z -> option A * list Z) b its r :
  decodes f b its r -> forall its' r', decodes f b its' r' -> its' = its /\ r' = r.
Proof.
  induction 1 as [b r E|b a r l r' E H IH]; intros its' r0 H'.
  - exact (decodes_inv_none f b r its' r0 E H').
  - destruct (decodes_inv_some f b a r its' r0 E H') as (l' & -> & Hl).
    destruct (IH _ _ Hl) as [-> ->]. auto.
Qed.

(* a decoder that consumes at least one byte per frame always terminates *)
Definition consuming {A} (f : list Z -> option A * list Z) : Prop :=
  forall b a r, f b = (Some a, r) -> (length r < length b)%nat.

Lemma decodes_total {A} (f : list Z -> option A * list Z) :
  consuming f -> forall b, exists its r, decodes f b its r.
Proof.
  intros Hc b. remember (length b) as n eqn:Hn. revert b Hn.
  induction n as [n IH] using lt_wf_ind. intros b ->.
  destruct (f b) as [[a|] r] eqn:E.
  - destruct (IH (length r) (Hc _ _ _ E) r eq_refl) as (its & r' & H).
    exists (a :: its), r'. econstructor; eassumption.
  - exists [], r. now constructor.
Qed.

Lemma decodes_length {A} (f : list Z -> option A * list Z) :
  consuming f -> forall b its r, decodes f b its r -> (length its <= length b)%nat.
Proof.
  intros Hc b its r H. induction H as [b r E|b a r l r' E H IH].
  - cbn [length]. lia.
  - specialize (Hc _ _ _ E). cbn [length]. lia.
Qed.

Section ReadFacts.
  Variable A : Type.
  Variable decode decode_eof : list Z -> option A * list Z.

  Notation next_item := (next_item decode decode_eof).
  Notation run_read := (run_read decode decode_eof).
  Notation run_more := (run_more decode decode_eof).
  Notation at_eof := (at_eof decode_eof).
  Notation decode_phase := (decode_phase decode decode_eof).

  (* ---- the codec law of C13 ---- *)
  (* an empty buffer holds no frame; a decoded frame and its residue do not change when more
     bytes are appended; None consumes nothing *)
  Record prefix_stable : Prop := {
    ps_nil : fst (decode []) = None;
    ps_some : forall b a r x, decode b = (Some a, r) -> decode (b ++ x) = (Some a, r ++ x);
    ps_none : forall b r, decode b = (None, r) -> r = b }.

  (* once decode_eof has said None it keeps saying None (needed only for C13_fused) *)
  Definition eof_idem : Prop := forall b r, decode_eof b = (None, r) -> decode_eof r = (None, r).

  (* ---- what a script delivers ---- *)
  (* all bytes read before the first 0-byte read *)
  Fixpoint stream (sc : list rd) : list Z :=
    match sc with
    | [] => []
    | RChunk [] :: _ => []
    | RChunk bs :: t => bs ++ stream t
    | REof :: _ => []
    | RPending :: t => stream t
    | RErr :: t => stream t
    end.

  (* number of I/O errors before the first 0-byte read *)
  Fixpoint io_errors (sc : list rd) : nat :=
    match sc with
    | [] => O
    | RChunk [] :: _ => O
    | RChunk _ :: t => io_errors t
    | REof :: _ => O
    | RPending :: t => io_errors t
    | RErr :: t => S (io_errors t)
    end.

  (* the bytes read up to the first I/O error or 0-byte read, and what ends the segment *)
  Inductive tail := TEof | TErr (t : list rd).
  Fixpoint seg (sc : list rd) : list Z * tail :=
    match sc with
    | [] => ([], TEof)
    | RChunk [] :: _ => ([], TEof)
    | RChunk bs :: t => let '(b, tl) := seg t in (bs ++ b, tl)
    | REof :: _ => ([], TEof)
    | RPending :: t => seg t
    | RErr :: t => ([], TErr t)
    end.

  (* The reference sequence of non-Pending poll results, with the exact position of every I/O
     error: the frames decodable from what was buffered plus the bytes read before the error,
     then the error, then the same again from the residue; at a 0-byte read, the frames, the
     codec's end-of-stream frames and None. *)
  Inductive ref : list Z -> list rd -> list (res A) -> Prop :=
  | ref_eof buf sc bytes its r its2 r2 :
      seg sc = (bytes, TEof) -> decodes decode (buf ++ bytes) its r -> decodes decode_eof r its2 r2 ->
      ref buf sc (map Item its ++ map Item its2 ++ [Done])
  | ref_err buf sc bytes t its r tr :
      seg sc = (bytes, TErr t) -> decodes decode (buf ++ bytes) its r -> ref r t tr ->
      ref buf sc (map Item its ++ IoError :: tr).

  Lemma ref_seg buf sc1 sc2 tr : seg sc1 = seg sc2 -> ref buf sc1 tr -> ref buf sc2 tr.
  Proof.
    intros E H. inversion H as [b s bytes its r its2 r2 Hs Hd He|b s bytes t its r tr' Hs Hd Hr]; subst.
    - eapply ref_eof; [rewrite <- E; exact Hs|exact Hd|exact He].
    - eapply ref_err; [rewrite <- E; exact Hs|exact Hd|exact Hr].
  Qed.

  Lemma ref_chunk buf b bs sc tr :
    ref (buf ++ b :: bs) sc tr -> ref buf (RChunk (b :: bs) :: sc) tr.
  Proof.
    intros H. inversion H as [b0 s bytes its r its2 r2 Hs Hd He|b0 s bytes t its r tr' Hs Hd Hr]; subst.
    - eapply ref_eof with (bytes := (b :: bs) ++ bytes); [cbn [seg]; now rewrite Hs| |exact He].
      now rewrite app_assoc.
    - eapply ref_err with (bytes := (b :: bs) ++ bytes); [cbn [seg]; now rewrite Hs| |exact Hr].
      now rewrite app_assoc.
  Qed.

  Lemma ref_nonempty buf sc tr : ref buf sc tr -> (1 <= length tr)%nat.
  Proof.
    intros H. inversion H; subst; rewrite !app_length; cbn [length]; lia.
  Qed.

  (* ---- the same reference for codecs whose end-of-stream frames never end ----
     `decodes decode_eof r its2 r2` exists only if decode_eof eventually says None.  A codec may go on
     producing end-of-stream frames for ever (a trailer derived from its own state on an EMPTY buffer, the
     provided `decode_eof` on a truncated frame): then every poll after the 0-byte read returns the next such
     frame and the stream never ends.  `eoftr b tr`: tr is an initial part (any length) of what repeated
     decode_eof calls on b yield — Item for a frame, Done where it says None (and stops there). *)
  Inductive eoftr : list Z -> list (res A) -> Prop :=
  | eo_cut b : eoftr b []
  | eo_done b r : decode_eof b = (None, r) -> eoftr b [Done]
  | eo_item b a r tr : decode_eof b = (Some a, r) -> eoftr r tr -> eoftr b (Item a :: tr).

  Lemma decodes_eoftr b its2 r2 : decodes decode_eof b its2 r2 -> eoftr b (map Item its2 ++ [Done]).
  Proof.
    induction 1 as [b r E|b a r l r' E H IH]; cbn [map app].
    - eapply eo_done; exact E.
    - eapply eo_item; [exact E|exact IH].
  Qed.

  Lemma eoftr_complete b tr : eoftr b tr -> In Done tr ->
    exists its2 r2, decodes decode_eof b its2 r2 /\ tr = map Item its2 ++ [Done].
  Proof.
    induction 1 as [b|b r E|b a r tr E H IH]; intros Hin.
    - destruct Hin.
    - exists [], r. split; [now constructor|reflexivity].
    - destruct Hin as [Hin|Hin]; [discriminate Hin|].
      destruct (IH Hin) as (its2 & r2 & Hd & ->).
      exists (a :: its2), r2. split; [econstructor; eassumption|reflexivity].
  Qed.

  Lemma eoftr_frames b tr : eoftr b tr -> Forall (fun x => x = Done \/ exists a, x = Item a) tr.
  Proof.
    induction 1 as [b|b r E|b a r tr E H IH]; constructor; eauto.
  Qed.

  Inductive gref : list Z -> list rd -> list (res A) -> Prop :=
  | gref_eof buf sc bytes its r tr2 :
      seg sc = (bytes, TEof) -> decodes decode (buf ++ bytes) its r -> eoftr r tr2 ->
      gref buf sc (map Item its ++ tr2)
  | gref_err buf sc bytes t its r tr :
      seg sc = (bytes, TErr t) -> decodes decode (buf ++ bytes) its r -> gref r t tr ->
      gref buf sc (map Item its ++ IoError :: tr).

  Lemma gref_seg buf sc1 sc2 tr : seg sc1 = seg sc2 -> gref buf sc1 tr -> gref buf sc2 tr.
  Proof.
    intros E H. inversion H as [b s bytes its r tr2 Hs Hd He|b s bytes t its r tr' Hs Hd Hr]; subst.
    - eapply gref_eof; [rewrite <- E; exact Hs|exact Hd|exact He].
    - eapply gref_err; [rewrite <- E; exact Hs|exact Hd|exact Hr].
  Qed.

  Lemma gref_chunk buf b bs sc tr :
    gref (buf ++ b :: bs) sc tr -> gref buf (RChunk (b :: bs) :: sc) tr.
  Proof.
    intros H. inversion H as [b0 s bytes its r tr2 Hs Hd He|b0 s bytes t its r tr' Hs Hd Hr]; subst.
    - eapply gref_eof with (bytes := (b :: bs) ++ bytes); [cbn [seg]; now rewrite Hs| |exact He].
      now rewrite app_assoc.
    - eapply gref_err with (bytes := (b :: bs) ++ bytes); [cbn [seg]; now rewrite Hs| |exact Hr].
      now rewrite app_assoc.
  Qed.

  (* the complete reference sequences (those that reach Done) are exactly `ref` *)
  Lemma ref_gref buf sc tr : ref buf sc tr -> gref buf sc tr.
  Proof.
    induction 1 as [buf sc bytes its r its2 r2 Hs Hd He|buf sc bytes t its r tr Hs Hd Hr IH].
    - eapply gref_eof; [exact Hs|exact Hd|]. apply (decodes_eoftr _ _ _ He).
    - eapply gref_err; eassumption.
  Qed.

  Lemma ref_done buf sc tr : ref buf sc tr -> In Done tr.
  Proof.
    induction 1 as [buf sc bytes its r its2 r2 Hs Hd He|buf sc bytes t its r tr Hs Hd Hr IH].
    - rewrite !in_app_iff. right. right. now left.
    - rewrite in_app_iff. right. now right.
  Qed.

  Lemma not_done_items (l : list A) : ~ In Done (map Item l).
  Proof. induction l as [|a l IH]; cbn [map In]; [tauto|]. intros [H|H]; [discriminate H|tauto]. Qed.

  Lemma gref_complete buf sc tr : gref buf sc tr -> In Done tr -> ref buf sc tr.
  Proof.
    induction 1 as [buf sc bytes its r tr2 Hs Hd He|buf sc bytes t its r tr Hs Hd Hr IH]; intros Hin.
    - rewrite in_app_iff in Hin. destruct Hin as [Hin|Hin]; [destruct (not_done_items _ Hin)|].
      destruct (eoftr_complete _ _ He Hin) as (its2 & r2 & Hd2 & ->).
      eapply ref_eof; eassumption.
    - rewrite in_app_iff in Hin. destruct Hin as [Hin|[Hin|Hin]];
        [destruct (not_done_items _ Hin)|discriminate Hin|].
      eapply ref_err; [exact Hs|exact Hd|exact (IH Hin)].
  Qed.

  (* ---- state invariant and what is still to come ---- *)
  Definition flags_ok (st : rstate) : Prop := eof st = true -> readable st = true.
  Definition wf (st : rstate) : Prop :=
    flags_ok st /\ (readable st = false -> fst (decode (rbuf st)) = None).

  Definition expect (st : rstate) (sc : list rd) (tr : list (res A)) : Prop :=
    if eof st then eoftr (rbuf st) tr else gref (rbuf st) sc tr.

  Lemma wf_init : fst (decode []) = None -> wf rinit.
  Proof. intros H. split; [intros E; discriminate E|intros _; exact H]. Qed.

  (* postcondition of one poll *)
  Definition post (sc : list rd) (tr : list (res A)) (out : res A * rstate * list rd) : Prop :=
    let '(r, st', sc') := out in
    wf st' /\ (length sc' <= length sc)%nat /\
    match r with
    | Pending => expect st' sc' tr /\ (length sc' < length sc)%nat
    | Item a => tr = [] \/ exists tr', tr = Item a :: tr' /\ expect st' sc' tr'
    | IoError => tr = [] \/ exists tr', tr = IoError :: tr' /\ expect st' sc' tr'
    | Done => (tr = [] \/ tr = [Done]) /\ eof st' = true
    | Panic => False
    end.

  Lemma post_weaken x sc tr out : post sc tr out -> post (x :: sc) tr out.
  Proof.
    destruct out as [[r st'] sc']. unfold post. intros (Hw & Hl & H).
    split; [exact Hw|]. split; [cbn [length]; lia|].
    destruct r; try exact H. destruct H as [H1 H2]. split; [exact H1|cbn [length]; lia].
  Qed.

  (* the iteration with READABLE|EOF set *)
  Lemma at_eof_post sc n buf tr :
    eoftr buf tr ->
    forall r st2, at_eof buf n = (r, st2) -> post sc tr (r, st2, sc).
  Proof.
    intros He r st2. unfold Framed.at_eof.
    destruct (decode_eof buf) as [[a|] rest] eqn:E; intros H; injection H as <- <-.
    - split; [split; [intros _; reflexivity|intros H; discriminate H]|]. split; [lia|].
      inversion He as [b|b r0 E0|b a0 r0 tr0 E0 H0]; subst; [left; reflexivity|congruence|].
      rewrite E in E0. injection E0 as <- <-.
      right. exists tr0. split; [reflexivity|]. unfold expect. cbn [eof rbuf]. exact H0.
    - split; [split; [intros _; reflexivity|intros H; discriminate H]|]. split; [lia|].
      split; [|reflexivity].
      inversion He as [b|b r0 E0|b a0 r0 tr0 E0 H0]; subst; [left; reflexivity|right; reflexivity|congruence].
  Qed.

  Definition read_step (sc : list rd) (st1 : rstate) : res A * rstate * list rd :=
    match sc with
    | [] => let '(r, st2) := at_eof (rbuf st1) (ncalls st1) in (r, st2, [])
    | RPending :: sc' => (Pending, st1, sc')
    | RErr :: sc' => (IoError, st1, sc')
    | REof :: sc' => let '(r, st2) := at_eof (rbuf st1) (ncalls st1) in (r, st2, sc')
    | RChunk [] :: sc' => let '(r, st2) := at_eof (rbuf st1) (ncalls st1) in (r, st2, sc')
    | RChunk bs :: sc' => next_item sc' (mkR (rbuf st1 ++ bs) true false (ncalls st1))
    end.

  Lemma next_item_eq sc st :
    next_item sc st =
    match decode_phase st with
    | Ret r st' => (r, st', sc)
    | Fall st1 => if eof st1 then (Panic, st1, sc) else read_step sc st1
    end.
  Proof. destruct sc as [|[[|b bs]| | |] sc']; reflexivity. Qed.

  Section WithLaw.
    Hypothesis law : prefix_stable.

    (* the decode part of an iteration: either the poll returns with the right item, or the
       read is reached with READABLE and EOF clear and a buffer the decoder has nothing in *)
    Lemma phase_post st sc tr :
      wf st -> expect st sc tr ->
      match decode_phase st with
      | Ret r st' => post sc tr (r, st', sc)
      | Fall st1 => eof st1 = false /\ readable st1 = false /\ fst (decode (rbuf st1)) = None
                    /\ gref (rbuf st1) sc tr
      end.
    Proof.
      intros [Hf Hn] He. unfold Framed.decode_phase, expect in *.
      destruct (readable st) eqn:Er.
      - destruct (eof st) eqn:Ee.
        + destruct (at_eof (rbuf st) (ncalls st)) as [r st2] eqn:Ea.
          exact (at_eof_post sc _ _ tr He r st2 Ea).
        + destruct (decode (rbuf st)) as [[a|] rest] eqn:Ed.
          * (* a frame: it is the first frame of the reference too, by ps_some *)
            split; [split; [intros H; discriminate H|intros H; discriminate H]|]. split; [lia|]. right.
            inversion He as [b s bytes its r tr2 Hs Hd Hde|b s bytes t its r tr' Hs Hd Hr]; subst.
            -- pose proof (ps_some law _ _ _ bytes Ed) as Ed'.
               destruct (decodes_inv_some _ _ _ _ _ _ Ed' Hd) as (l & -> & Hl).
               exists (map Item l ++ tr2). split; [reflexivity|].
               cbn [eof rbuf]. eapply gref_eof; eassumption.
            -- pose proof (ps_some law _ _ _ bytes Ed) as Ed'.
               destruct (decodes_inv_some _ _ _ _ _ _ Ed' Hd) as (l & -> & Hl).
               exists (map Item l ++ IoError :: tr'). split; [reflexivity|].
               cbn [eof rbuf]. eapply gref_err; eassumption.
          * pose proof (ps_none law _ _ Ed) as ->. cbn [eof readable rbuf].
            rewrite Ed. auto.
      - assert (Ee : eof st = false).
        { destruct (eof st) eqn:Ee; [|reflexivity]. specialize (Hf Ee). congruence. }
        rewrite Ee in He. auto.
    Qed.

    Lemma decodes_nothing buf its r :
      fst (decode buf) = None -> decodes decode (buf ++ []) its r -> its = [] /\ r = buf.
    Proof.
      rewrite app_nil_r. intros Hn Hd. destruct (decode buf) as [o rest] eqn:E.
      cbn [fst] in Hn. subst o. pose proof (ps_none law _ _ E) as ->.
      exact (decodes_inv_none _ _ _ _ _ E Hd).
    Qed.

    (* reading a 0-byte answer with nothing decodable buffered *)
    Lemma eof_read_post sc sc' st1 tr :
      fst (decode (rbuf st1)) = None -> gref (rbuf st1) sc tr -> seg sc = ([], TEof) ->
      (length sc' <= length sc)%nat ->
      forall r st2, at_eof (rbuf st1) (ncalls st1) = (r, st2) -> post sc tr (r, st2, sc').
    Proof.
      intros Hn Hr Hs Hl r st2 Ea.
      assert (He : eoftr (rbuf st1) tr).
      { inversion Hr as [b s bytes its r0 tr2 Hs' Hd Hde|b s bytes t its r0 tr' Hs' Hd Hr']; subst;
          rewrite Hs in Hs'; [|discriminate]. injection Hs' as <-.
        destruct (decodes_nothing _ _ _ Hn Hd) as [-> ->]. exact Hde. }
      pose proof (at_eof_post sc' (ncalls st1) (rbuf st1) tr He r st2 Ea) as (Hw & _ & H).
      split; [exact Hw|]. split; [exact Hl|]. destruct r; try exact H. destruct H; lia.
    Qed.

    (* ---- one poll ---- *)
    Lemma next_item_post sc : forall st tr,
      wf st -> expect st sc tr -> post sc tr (next_item sc st).
    Proof.
      induction sc as [|x sc' IH]; intros st tr Hw He; rewrite next_item_eq;
        pose proof (phase_post st _ tr Hw He) as Hp;
        destruct (decode_phase st) as [r st'|st1]; try exact Hp;
        destruct Hp as (Ee & Er & Hn & Hr); rewrite Ee.
      - (* script exhausted: a 0-byte read *)
        cbn [read_step]. destruct (at_eof (rbuf st1) (ncalls st1)) as [r st2] eqn:Ea.
        eapply eof_read_post; eauto.
      - assert (Hw1 : wf st1).
        { split; [intros H; congruence|intros _; exact Hn]. }
        destruct x as [[|b bs]| | |]; cbn [read_step].
        + destruct (at_eof (rbuf st1) (ncalls st1)) as [r st2] eqn:Ea.
          eapply eof_read_post; eauto. cbn [length]. lia.
        + (* data: READABLE is set and the loop goes round *)
          apply post_weaken. apply IH.
          * split; [intros H; discriminate H|intros H; discriminate H].
          * unfold expect. cbn [eof rbuf].
            inversion Hr as [b0 s bytes its r0 tr2 Hs Hd Hde|b0 s bytes t its r0 tr' Hs Hd Hr']; subst;
              cbn [seg] in Hs; destruct (seg sc') as [bytes' tl] eqn:Es; injection Hs as Hb Ht;
              subst bytes tl.
            -- eapply gref_eof; [exact Es| |exact Hde]. now rewrite <- app_assoc.
            -- eapply gref_err; [exact Es| |exact Hr']. now rewrite <- app_assoc.
        + (* Pending *)
          split; [exact Hw1|]. split; [cbn [length]; lia|]. split; [|cbn [length]; lia].
          unfold expect. rewrite Ee. eapply gref_seg; [|exact Hr]. reflexivity.
        + destruct (at_eof (rbuf st1) (ncalls st1)) as [r st2] eqn:Ea.
          eapply eof_read_post; eauto. cbn [length]. lia.
        + (* I/O error: nothing decodable is buffered, so it is the next reference item *)
          split; [exact Hw1|]. split; [cbn [length]; lia|]. right.
          inversion Hr as [b0 s bytes its r0 tr2 Hs Hd Hde|b0 s bytes t its r0 tr' Hs Hd Hr']; subst;
            cbn [seg] in Hs; [discriminate|]. injection Hs as <- <-.
          destruct (decodes_nothing _ _ _ Hn Hd) as [-> ->].
          exists tr'. split; [reflexivity|]. unfold expect. now rewrite Ee.
    Qed.

    (* ---- the whole run: the non-Pending results are exactly the reference sequence ---- *)
    Definition not_pending (r : res A) : bool := match r with Pending => false | _ => true end.
    Definition results (l : list (res A * nat)) : list (res A) := filter not_pending (map fst l).

    (* the non-Pending results start with every reference sequence that fits into the fuel; a reference
       sequence that reaches Done is all of them *)
    Lemma run_read_spec fuel : forall sc st tr,
      wf st -> expect st sc tr -> (length sc + length tr <= fuel)%nat ->
      exists rest, results (run_read fuel 0 sc st) = tr ++ rest /\ (In Done tr -> rest = []).
    Proof.
      induction fuel as [|f IH]; intros sc st tr Hw He Hf.
      - destruct tr; [|cbn [length] in Hf; lia]. exists []. split; [reflexivity|intros []].
      - cbn [Framed.run_read]. pose proof (next_item_post sc st tr Hw He) as Hp.
        destruct (next_item sc st) as [[r st'] sc']. destruct Hp as (Hw' & Hl & H).
        destruct r.
        + destruct H as [He' Hlt]. unfold results. cbn [map fst filter not_pending].
          apply IH; [exact Hw'|exact He'|lia].
        + unfold results. cbn [map fst filter not_pending].
          destruct H as [->|(tr' & -> & He')]; [eexists; split; [reflexivity|intros []]|].
          destruct (IH sc' st' tr' Hw' He' ltac:(cbn [length] in Hf; lia)) as (rest & E & Hd).
          exists rest. unfold results in E. rewrite E. split; [reflexivity|].
          intros [Hin|Hin]; [discriminate Hin|auto].
        + unfold results. cbn [map fst filter not_pending].
          destruct H as [->|(tr' & -> & He')]; [eexists; split; [reflexivity|intros []]|].
          destruct (IH sc' st' tr' Hw' He' ltac:(cbn [length] in Hf; lia)) as (rest & E & Hd).
          exists rest. unfold results in E. rewrite E. split; [reflexivity|].
          intros [Hin|Hin]; [discriminate Hin|auto].
        + destruct H as [[->| ->] _]; unfold results; cbn [map fst filter not_pending Framed.run_more].
          * eexists; split; [reflexivity|intros []].
          * exists []. split; [reflexivity|reflexivity].
        + destruct H.
    Qed.

    (* C13_errors, for reference sequences that may be cut short inside the end-of-stream frames *)
    Theorem read_errors_prefix sc tr fuel :
      gref [] sc tr -> (length sc + length tr <= fuel)%nat ->
      exists rest, results (run_read fuel 0 sc rinit) = tr ++ rest /\ (In Done tr -> rest = []).
    Proof.
      intros Hr Hf. apply run_read_spec; [apply wf_init; exact (ps_nil law)| |exact Hf].
      exact Hr.
    Qed.

    (* C13_errors *)
    Theorem read_errors sc tr fuel :
      ref [] sc tr -> (length sc + length tr <= fuel)%nat ->
      results (run_read fuel 0 sc rinit) = tr.
    Proof.
      intros Hr Hf. destruct (read_errors_prefix sc tr fuel (ref_gref _ _ _ Hr) Hf) as (rest & E & Hd).
      rewrite E, (Hd (ref_done _ _ _ Hr)). apply app_nil_r.
    Qed.

    (* ---- from the position-exact reference to "the frames of the whole stream" ---- *)
    Lemma decodes_split x y its r :
      decodes decode (x ++ y) its r ->
      exists its1 r1 its', decodes decode x its1 r1 /\ decodes decode (r1 ++ y) its' r /\ its = its1 ++ its'.
    Proof.
      revert x. induction its as [|a l IH]; intros x H.
      - destruct (decode x) as [[a|] r1] eqn:E.
        + pose proof (ps_some law _ _ _ y E) as E'.
          destruct (decodes_inv_some _ _ _ _ _ _ E' H) as (l & Hl & _). discriminate.
        + pose proof (ps_none law _ _ E) as ->. exists [], x, []. split; [now constructor|]. auto.
      - destruct (decode x) as [[a'|] r1] eqn:E.
        + pose proof (ps_some law _ _ _ y E) as E'.
          destruct (decodes_inv_some _ _ _ _ _ _ E' H) as (l' & Hl & Hd). injection Hl as <- <-.
          destruct (IH _ Hd) as (its1 & r2 & its' & H1 & H2 & ->).
          exists (a :: its1), r2, its'. split; [econstructor; eassumption|]. auto.
        + pose proof (ps_none law _ _ E) as ->. exists [], x, (a :: l).
          split; [now constructor|]. auto.
    Qed.

    Definition is_frame (r : res A) : bool :=
      match r with Pending | IoError => false | _ => true end.
    Definition is_ioerr (r : res A) : bool := match r with IoError => true | _ => false end.

    Lemma filter_items (f : res A -> bool) (l : list A) :
      (forall a, f (Item a) = true) -> filter f (map Item l) = map Item l.
    Proof. intros H. induction l as [|a l IH]; cbn [map filter]; [reflexivity|]. now rewrite H, IH. Qed.

    Lemma filter_items_none (f : res A -> bool) (l : list A) :
      (forall a, f (Item a) = false) -> filter f (map Item l) = [].
    Proof. intros H. induction l as [|a l IH]; cbn [map filter]; [reflexivity|]. now rewrite H, IH. Qed.

    Lemma filter_app {X} (f : X -> bool) (l1 l2 : list X) : filter f (l1 ++ l2) = filter f l1 ++ filter f l2.
    Proof. induction l1 as [|a l IH]; cbn [app filter]; [reflexivity|]. destruct (f a); cbn [app]; now rewrite IH. Qed.

    (* every script has a reference sequence whenever the whole stream decodes, and apart from
       the I/O errors it is the frames of the whole stream, the EOF frames and None *)
    Lemma ref_of_stream sc : forall buf its r its2 r2,
      decodes decode (buf ++ stream sc) its r -> decodes decode_eof r its2 r2 ->
      exists tr, ref buf sc tr
                 /\ filter is_frame tr = map Item its ++ map Item its2 ++ [Done]
                 /\ length (filter is_ioerr tr) = io_errors sc
                 /\ length tr = (length its + length its2 + 1 + io_errors sc)%nat.
    Proof.
      assert (Hbase : forall sc buf its r its2 r2,
                 seg sc = ([], TEof) -> stream sc = [] -> io_errors sc = O ->
                 decodes decode (buf ++ stream sc) its r -> decodes decode_eof r its2 r2 ->
                 exists tr, ref buf sc tr
                            /\ filter is_frame tr = map Item its ++ map Item its2 ++ [Done]
                            /\ length (filter is_ioerr tr) = io_errors sc
                            /\ length tr = (length its + length its2 + 1 + io_errors sc)%nat).
      { intros sc0 buf its r its2 r2 Hs Hst Hio Hd He. rewrite Hst in Hd. rewrite Hio.
        exists (map Item its ++ map Item its2 ++ [Done]).
        split; [eapply ref_eof; eassumption|].
        rewrite !filter_app, !filter_items, !filter_items_none by reflexivity.
        cbn [filter is_frame is_ioerr app length]. rewrite !app_length, !map_length. cbn [length].
        repeat split; lia. }
      induction sc as [|x sc' IH]; intros buf its r its2 r2 Hd He.
      - apply Hbase with (r := r) (r2 := r2); auto.
      - destruct x as [[|b bs]| | |].
        + apply Hbase with (r := r) (r2 := r2); auto.
        + cbn [stream] in Hd. rewrite app_assoc in Hd.
          destruct (IH _ _ _ _ _ Hd He) as (tr & Hr & H1 & H2 & H3).
          exists tr. split; [apply ref_chunk; exact Hr|]. cbn [io_errors]. auto.
        + cbn [stream] in Hd. destruct (IH _ _ _ _ _ Hd He) as (tr & Hr & H1 & H2 & H3).
          exists tr. split; [eapply ref_seg; [|exact Hr]; reflexivity|]. cbn [io_errors]. auto.
        + apply Hbase with (r := r) (r2 := r2); auto.
        + cbn [stream] in Hd.
          destruct (decodes_split _ _ _ _ Hd) as (its1 & r1 & its' & Hd1 & Hd2 & ->).
          destruct (IH _ _ _ _ _ Hd2 He) as (tr & Hr & H1 & H2 & H3).
          exists (map Item its1 ++ IoError :: tr). split.
          * eapply ref_err with (bytes := []); [reflexivity| |exact Hr]. now rewrite app_nil_r.
          * rewrite !filter_app. cbn [filter is_frame is_ioerr].
            rewrite filter_items, filter_items_none by reflexivity.
            rewrite H1. cbn [app length io_errors]. rewrite H2, map_app, <- !app_assoc.
            rewrite !app_length, !map_length. cbn [length]. rewrite H3.
            repeat split; lia.
    Qed.

    Definition frames (l : list (res A * nat)) : list (res A) := filter is_frame (map fst l).
    Definition ioerrs (l : list (res A * nat)) : nat := length (filter is_ioerr (map fst l)).

    Lemma filter_filter_frame (l : list (res A)) : filter is_frame (filter not_pending l) = filter is_frame l.
    Proof.
      induction l as [|a l IH]; [reflexivity|]. cbn [filter].
      destruct a; cbn [not_pending is_frame filter]; now rewrite ?IH.
    Qed.
    Lemma filter_filter_ioerr (l : list (res A)) : filter is_ioerr (filter not_pending l) = filter is_ioerr l.
    Proof.
      induction l as [|a l IH]; [reflexivity|]. cbn [filter].
      destruct a; cbn [not_pending is_ioerr filter]; now rewrite ?IH.
    Qed.

    (* C13_chunk_independent *)
    Theorem read_chunk_independent sc its r its2 r2 fuel :
      decodes decode (stream sc) its r -> decodes decode_eof r its2 r2 ->
      (length sc + length its + length its2 + io_errors sc + 1 <= fuel)%nat ->
      frames (run_read fuel 0 sc rinit) = map Item its ++ map Item its2 ++ [Done]
      /\ ioerrs (run_read fuel 0 sc rinit) = io_errors sc.
    Proof.
      intros Hd He Hf.
      destruct (ref_of_stream sc [] its r its2 r2 Hd He) as (tr & Hr & H1 & H2 & H3).
      pose proof (read_errors sc tr fuel Hr ltac:(lia)) as Hrun.
      unfold frames, ioerrs. rewrite <- filter_filter_frame, <- filter_filter_ioerr.
      unfold results in Hrun. rewrite Hrun. auto.
    Qed.
    (* ---- the same for end-of-stream frames that never end (or for any initial part of them) ---- *)
    Lemma eoftr_is_frame b tr : eoftr b tr -> filter is_frame tr = tr /\ filter is_ioerr tr = [].
    Proof.
      induction 1 as [b|b r E|b a r tr E H [IH1 IH2]]; cbn [filter is_frame is_ioerr]; [auto|auto|].
      now rewrite IH1, IH2.
    Qed.

    Lemma gref_of_stream sc : forall buf its r tr2,
      decodes decode (buf ++ stream sc) its r -> eoftr r tr2 ->
      exists tr, gref buf sc tr
                 /\ filter is_frame tr = map Item its ++ tr2
                 /\ length (filter is_ioerr tr) = io_errors sc
                 /\ length tr = (length its + length tr2 + io_errors sc)%nat.
    Proof.
      assert (Hbase : forall sc buf its r tr2,
                 seg sc = ([], TEof) -> stream sc = [] -> io_errors sc = O ->
                 decodes decode (buf ++ stream sc) its r -> eoftr r tr2 ->
                 exists tr, gref buf sc tr
                            /\ filter is_frame tr = map Item its ++ tr2
                            /\ length (filter is_ioerr tr) = io_errors sc
                            /\ length tr = (length its + length tr2 + io_errors sc)%nat).
      { intros sc0 buf its r tr2 Hs Hst Hio Hd He. rewrite Hst in Hd. rewrite Hio.
        exists (map Item its ++ tr2).
        split; [eapply gref_eof; eassumption|].
        destruct (eoftr_is_frame _ _ He) as [F1 F2].
        rewrite !filter_app, filter_items, filter_items_none, F1, F2 by reflexivity.
        cbn [app length]. rewrite !app_length, !map_length.
        repeat split; lia. }
      induction sc as [|x sc' IH]; intros buf its r tr2 Hd He.
      - apply Hbase with (r := r); auto.
      - destruct x as [[|b bs]| | |].
        + apply Hbase with (r := r); auto.
        + cbn [stream] in Hd. rewrite app_assoc in Hd.
          destruct (IH _ _ _ _ Hd He) as (tr & Hr & H1 & H2 & H3).
          exists tr. split; [apply gref_chunk; exact Hr|]. cbn [io_errors]. auto.
        + cbn [stream] in Hd. destruct (IH _ _ _ _ Hd He) as (tr & Hr & H1 & H2 & H3).
          exists tr. split; [eapply gref_seg; [|exact Hr]; reflexivity|]. cbn [io_errors]. auto.
        + apply Hbase with (r := r); auto.
        + cbn [stream] in Hd.
          destruct (decodes_split _ _ _ _ Hd) as (its1 & r1 & its' & Hd1 & Hd2 & ->).
          destruct (IH _ _ _ _ Hd2 He) as (tr & Hr & H1 & H2 & H3).
          exists (map Item its1 ++ IoError :: tr). split.
          * eapply gref_err with (bytes := []); [reflexivity| |exact Hr]. now rewrite app_nil_r.
          * rewrite !filter_app. cbn [filter is_frame is_ioerr].
            rewrite filter_items, filter_items_none by reflexivity.
            rewrite H1. cbn [app length io_errors]. rewrite H2, map_app, <- !app_assoc.
            rewrite !app_length, !map_length. cbn [length]. rewrite H3.
            repeat split; lia.
    Qed.

    (* C13_chunk_independent without the assumption that the end-of-stream frames end: for every script the
       frames start with those of the whole stream, in order, followed by as many of the codec's end-of-stream
       frames as the polls reach — in particular the codec IS asked at the 0-byte read even when the buffer is
       empty, and whatever it answers is delivered *)
    Theorem read_chunk_independent_prefix sc its r tr2 fuel :
      decodes decode (stream sc) its r -> eoftr r tr2 ->
      (length sc + length its + length tr2 + io_errors sc <= fuel)%nat ->
      exists rest, frames (run_read fuel 0 sc rinit) = map Item its ++ tr2 ++ rest
                   /\ (In Done tr2 -> rest = []).
    Proof.
      intros Hd He Hf.
      destruct (gref_of_stream sc [] its r tr2 Hd He) as (tr & Hr & H1 & H2 & H3).
      destruct (read_errors_prefix sc tr fuel Hr ltac:(lia)) as (rest & Hrun & Hdone).
      exists (filter is_frame rest). unfold frames. rewrite <- filter_filter_frame.
      unfold results in Hrun. rewrite Hrun, filter_app, H1, <- app_assoc. split; [reflexivity|].
      intros Hin. rewrite Hdone; [reflexivity|].
      assert (Hin' : In Done (filter is_frame tr)) by (rewrite H1, in_app_iff; now right).
      apply filter_In in Hin'. tauto.
    Qed.
  End WithLaw.

  (* ---- no law needed: the debug_assert is unreachable ---- *)
  Lemma at_eof_flags buf n r st2 : at_eof buf n = (r, st2) -> r <> Panic /\ flags_ok st2.
  Proof.
    unfold Framed.at_eof. destruct (decode_eof buf) as [[a|] rest]; intros H; injection H as <- <-;
      (split; [discriminate|intros _; reflexivity]).
  Qed.

  Lemma next_item_flags sc : forall st,
    flags_ok st -> let '(r, st', _) := next_item sc st in r <> Panic /\ flags_ok st'.
  Proof.
    induction sc as [|x sc' IH]; intros st Hf; rewrite next_item_eq; unfold Framed.decode_phase;
      destruct (readable st) eqn:Er.
    1, 3: destruct (eof st) eqn:Ee;
      [ destruct (at_eof (rbuf st) (ncalls st)) as [r st2] eqn:Ea; exact (at_eof_flags _ _ _ _ Ea)
      | destruct (decode (rbuf st)) as [[a|] rest];
        [ split; [discriminate|intros H; discriminate H] | cbn [eof] ] ].
    3, 4: assert (Ee : eof st = false)
        by (destruct (eof st) eqn:Ee; [specialize (Hf Ee); congruence|reflexivity]);
      rewrite Ee.
    1, 3: cbn [read_step rbuf ncalls];
      match goal with |- context [at_eof ?b ?n] => destruct (at_eof b n) as [r st2] eqn:Ea end;
      exact (at_eof_flags _ _ _ _ Ea).
    all: destruct x as [[|b bs]| | |]; cbn [read_step rbuf ncalls];
      try (match goal with |- context [at_eof ?b ?n] => destruct (at_eof b n) as [r st2] eqn:Ea end;
           exact (at_eof_flags _ _ _ _ Ea));
      try (apply IH; intros H; discriminate H);
      try (split; [discriminate|intros H; discriminate H]);
      try (split; [discriminate|exact Hf]).
  Qed.

  Lemma run_more_no_panic n : forall sc st,
    flags_ok st -> ~ In Panic (map fst (run_more n sc st)).
  Proof.
    induction n as [|k IH]; intros sc st Hf; cbn [Framed.run_more map]; [intros []|].
    pose proof (next_item_flags sc st Hf) as H. destruct (next_item sc st) as [[r st'] sc'].
    destruct H as [Hr Hf']. cbn [map fst]. intros [E|Hin]; [congruence|exact (IH _ _ Hf' Hin)].
  Qed.

  (* C13_no_debug_assert *)
  Theorem read_no_panic fuel extra : forall sc st,
    flags_ok st -> ~ In Panic (map fst (run_read fuel extra sc st)).
  Proof.
    induction fuel as [|f IH]; intros sc st Hf; cbn [Framed.run_read map]; [intros []|].
    pose proof (next_item_flags sc st Hf) as H. destruct (next_item sc st) as [[r st'] sc'].
    destruct H as [Hr Hf'].
    destruct r; cbn [map fst]; try (intros [E|Hin]; [congruence|exact (IH _ _ Hf' Hin)]).
    - intros [E|Hin]; [congruence|exact (run_more_no_panic _ _ _ Hf' Hin)].
    - congruence.
  Qed.

  (* ---- fused: after Ready(None) every further poll is Ready(None) ---- *)
  Definition ended (st : rstate) : Prop :=
    eof st = true /\ readable st = true /\ exists b, decode_eof b = (None, rbuf st).

  Lemma at_eof_done buf n st2 : at_eof buf n = (Done, st2) -> ended st2.
  Proof.
    unfold Framed.at_eof. destruct (decode_eof buf) as [[a|] rest] eqn:E; intros H; [discriminate|].
    injection H as <-. repeat split. exists buf. exact E.
  Qed.

  Lemma next_item_done sc : forall st st' sc', next_item sc st = (Done, st', sc') -> ended st'.
  Proof.
    induction sc as [|x sc' IH]; intros st st' sc2; rewrite next_item_eq; unfold Framed.decode_phase;
      destruct (readable st); [destruct (eof st) eqn:Ee| |destruct (eof st) eqn:Ee|].
    all: try (destruct (at_eof (rbuf st) (ncalls st)) as [r st2] eqn:Ea; intros H; injection H as -> <- <-;
              exact (at_eof_done _ _ _ Ea)).
    all: try (destruct (decode (rbuf st)) as [[a|] rest]; [intros H; discriminate H|cbn [eof]]).
    all: try (destruct (eof st); [intros H; discriminate H|]).
    all: try (cbn [read_step rbuf ncalls];
              match goal with |- context [at_eof ?b ?n] => destruct (at_eof b n) as [r st2] eqn:Ea end;
              intros H; injection H as -> <- <-; exact (at_eof_done _ _ _ Ea)).
    all: destruct x as [[|b bs]| | |]; cbn [read_step rbuf ncalls];
      try (match goal with |- context [at_eof ?b ?n] => destruct (at_eof b n) as [r st2] eqn:Ea end;
           intros H; injection H as -> <- <-; exact (at_eof_done _ _ _ Ea));
      try (intros H; discriminate H);
      try (apply IH).
  Qed.

  Lemma ended_poll : eof_idem -> forall st sc, ended st ->
    exists st', next_item sc st = (Done, st', sc) /\ ended st' /\ rbuf st' = rbuf st.
  Proof.
    intros Hi st sc (Ee & Er & b & Eb). rewrite next_item_eq. unfold Framed.decode_phase, Framed.at_eof.
    rewrite Er, Ee, (Hi _ _ Eb). eexists. split; [reflexivity|].
    split; [|reflexivity]. repeat split. exists b. exact Eb.
  Qed.

  (* C13_fused *)
  Theorem read_fused : eof_idem -> forall sc st st' sc',
    next_item sc st = (Done, st', sc') ->
    forall n sc2, map fst (run_more n sc2 st') = repeat Done n.
  Proof.
    intros Hi sc st st' sc' H n. pose proof (next_item_done _ _ _ _ H) as He. clear H.
    revert st' He. induction n as [|k IH]; intros st' He sc2; [reflexivity|].
    cbn [Framed.run_more]. destruct (ended_poll Hi st' sc2 He) as (st2 & -> & He2 & _).
    cbn [map fst repeat]. f_equal. apply IH. exact He2.
  Qed.
End ReadFacts.

Arguments prefix_stable {A}.
Arguments eof_idem {A}.
Arguments ref {A}.
Arguments gref {A}.
Arguments eoftr {A}.
Arguments results {A}.
Arguments frames {A}.
Arguments ioerrs {A}.
Arguments ps_nil {A decode}.
Arguments ps_some {A decode}.
Arguments ps_none {A decode}.
Arguments stream : clear implicits.
Arguments io_errors : clear implicits.

(* ===================================================================================== *)
(* The codecs of the correspondence run satisfy the law                                  *)
(* ===================================================================================== *)

(* ---- LinesCodec ---- *)
Lemma lines_prefix_stable : prefix_stable Lines.decode.
Proof.
  split.
  - reflexivity.
  - intros b a r x H. unfold decode in *.
    destruct (split_lf b) as [[line rest]|] eqn:E; [|discriminate H].
    injection H as <- <-. apply split_lf_some in E as [-> Hn].
    rewrite <- app_assoc. cbn [app]. now rewrite split_lf_app.
  - intros b r H. unfold decode in H.
    destruct (split_lf b) as [[line rest]|]; [discriminate H|]. now injection H as <-.
Qed.

Lemma lines_consuming : consuming Lines.decode.
Proof.
  intros b a r H. unfold decode in H.
  destruct (split_lf b) as [[line rest]|] eqn:E; [|discriminate H].
  injection H as _ <-. exact (split_lf_shorter _ _ _ E).
Qed.

Lemma lines_eof_idem : eof_idem Lines.decode_eof.
Proof.
  intros b r H. unfold decode_eof in H.
  destruct (decode b) as [[it|] rest] eqn:Ed; [discriminate H|].
  destruct b as [|c t]; [injection H as <-; reflexivity|].
  destruct (ends_cr (c :: t)).
  - destruct (removelast (c :: t)); [injection H as <-; reflexivity|discriminate H].
  - discriminate H.
Qed.

Lemma decode_loop_decodes fuel : forall src its r,
  decode_loop fuel src = Some (its, r) -> decodes Lines.decode src its r.
Proof.
  induction fuel as [|f IH]; intros src its r H; [discriminate H|].
  cbn [decode_loop] in H. destruct (decode src) as [[it|] rest] eqn:E.
  - destruct (decode_loop f rest) as [[l r']|] eqn:El; [|discriminate H].
    injection H as <- <-. econstructor; [exact E|]. now apply IH.
  - injection H as <- <-. now constructor.
Qed.

Lemma decode_eof_loop_decodes fuel : forall src its r,
  decode_eof_loop fuel src = Some (its, r) -> decodes Lines.decode_eof src its r.
Proof.
  induction fuel as [|f IH]; intros src its r H; [discriminate H|].
  cbn [decode_eof_loop] in H. destruct (decode_eof src) as [[it|] rest] eqn:E.
  - destruct (decode_eof_loop f rest) as [[l r']|] eqn:El; [|discriminate H].
    injection H as <- <-. econstructor; [exact E|]. now apply IH.
  - injection H as <- <-. now constructor.
Qed.

Lemma ref_eof_tail_length r : (length (ref_eof_tail r) <= 1)%nat.
Proof. unfold ref_eof_tail. destruct (strip_cr r); cbn [length]; lia. Qed.

(* Framed over LinesCodec: for every script, the frames are the lines of the reference splitter
   of C15 applied to the whole stream, then the unterminated tail, then None *)
Theorem lines_chunk_independent sc fuel :
  (length sc + length (stream sc) + io_errors sc + 2 <= fuel)%nat ->
  frames (run_read Lines.decode Lines.decode_eof fuel 0 sc rinit)
  = map Item (fst (ref_lines (stream sc))) ++ map Item (ref_eof_tail (snd (ref_lines (stream sc)))) ++ [Done]
  /\ ioerrs (run_read Lines.decode Lines.decode_eof fuel 0 sc rinit) = io_errors sc.
Proof.
  intros Hf. set (s := stream sc) in *.
  pose proof (decode_all_spec s) as Hs. destruct (ref_lines s) as [its r] eqn:Er. cbn [fst snd].
  assert (Hn : ~ In 10 r).
  { unfold ref_lines in Er. destruct (ref_split [] s) as [ls r0] eqn:E. injection Er as _ <-.
    eapply ref_split_residue; [exact E|intros []]. }
  pose proof (decode_loop_decodes _ _ _ _ Hs) as Hd.
  pose proof (decode_eof_loop_decodes _ _ _ _ (decode_all_eof_tail r Hn)) as He.
  pose proof (decodes_length _ lines_consuming _ _ _ Hd) as Hl.
  pose proof (ref_eof_tail_length r) as Hl2.
  apply (read_chunk_independent _ _ _ lines_prefix_stable sc its r _ _ fuel Hd He). fold s. lia.
Qed.

(* ---- the length-prefixed test codec ---- *)
Lemma lp_prefix_stable : prefix_stable lp_decode.
Proof.
  split.
  - reflexivity.
  - intros b a r x H. destruct b as [|n t]; [discriminate H|]. cbn [app]. unfold lp_decode in *.
    destruct (n =? 255); [injection H as <- <-; reflexivity|].
    destruct (Nat.ltb_spec (length t) (Z.to_nat n)) as [Hlt|Hge]; [discriminate H|].
    injection H as <- <-.
    destruct (Nat.ltb_spec (length (t ++ x)) (Z.to_nat n)) as [Hlt|_]; [rewrite app_length in Hlt; lia|].
    rewrite firstn_app, skipn_app.
    replace (Z.to_nat n - length t)%nat with O by lia.
    cbn [firstn skipn]. now rewrite app_nil_r.
  - intros b r H. destruct b as [|n t]; [now injection H as <-|]. unfold lp_decode in H.
    destruct (n =? 255); [discriminate H|].
    destruct (length t <? Z.to_nat n)%nat; [now injection H as <-|discriminate H].
Qed.

Lemma lp_consuming : consuming lp_decode.
Proof.
  intros b a r H. destruct b as [|n t]; [discriminate H|]. unfold lp_decode in H.
  destruct (n =? 255); [injection H as _ <-; cbn [length]; lia|].
  destruct (length t <? Z.to_nat n)%nat; [discriminate H|].
  injection H as _ <-. rewrite skipn_length. cbn [length]. lia.
Qed.

Lemma lp_eof_consuming : consuming lp_decode_eof.
Proof.
  intros b a r H. unfold lp_decode_eof in H. destruct (lp_decode b) as [[it|] rest] eqn:E.
  - injection H as <- <-. exact (lp_consuming _ _ _ E).
  - pose proof (ps_none lp_prefix_stable _ _ E) as ->.
    destruct b as [|n t]; [discriminate H|]. injection H as _ <-. cbn [length]. lia.
Qed.

Lemma lp_eof_idem : eof_idem lp_decode_eof.
Proof.
  intros b r H. unfold lp_decode_eof in H. destruct (lp_decode b) as [[it|] rest]; [discriminate H|].
  destruct rest; [injection H as <-; reflexivity|discriminate H].
Qed.

Theorem lp_chunk_independent sc :
  exists its r its2 r2,
    decodes lp_decode (stream sc) its r /\ decodes lp_decode_eof r its2 r2 /\
    forall fuel, (length sc + length its + length its2 + io_errors sc + 1 <= fuel)%nat ->
      frames (run_read lp_decode lp_decode_eof fuel 0 sc rinit) = map Item its ++ map Item its2 ++ [Done]
      /\ ioerrs (run_read lp_decode lp_decode_eof fuel 0 sc rinit) = io_errors sc.
Proof.
  destruct (decodes_total _ lp_consuming (stream sc)) as (its & r & Hd).
  destruct (decodes_total _ lp_eof_consuming r) as (its2 & r2 & He).
  exists its, r, its2, r2. split; [exact Hd|]. split; [exact He|]. intros fuel Hf.
  exact (read_chunk_independent _ _ _ lp_prefix_stable sc its r its2 r2 fuel Hd He Hf).
Qed.

(* the reference is meaningful: the frames of a concatenation of well-formed frames are the payloads *)
Definition lp_frame (p : list Z) : list Z := Z.of_nat (length p) :: p.

(* ---- the test codec with a trailer: end-of-stream frames from an empty buffer, without end ---- *)
Lemma decodes_residue {A} (f : list Z -> option A * list Z) b its r :
  prefix_stable f -> decodes f b its r -> f r = (None, r).
Proof.
  intros law. induction 1 as [b r E|b a r l r' E H IH]; [|exact IH].
  pose proof (ps_none law _ _ E) as ->. exact E.
Qed.

Lemma lps_eoftr_empty k : eoftr lps_decode_eof [] (repeat (Item LEnd) k).
Proof.
  induction k as [|k IH]; cbn [repeat]; [constructor|].
  eapply eo_item; [reflexivity|exact IH].
Qed.

Definition lps_tail (r : list Z) : list (res lpitem) := match r with [] => [] | _ => [Item LTrunc] end.

Lemma lps_eoftr r k : lp_decode r = (None, r) -> eoftr lps_decode_eof r (lps_tail r ++ repeat (Item LEnd) k).
Proof.
  intros E. destruct r as [|n t]; cbn [lps_tail app]; [apply lps_eoftr_empty|].
  eapply eo_item; [unfold lps_decode_eof; rewrite E; reflexivity|apply lps_eoftr_empty].
Qed.

(* for every script and every k: the frames of the whole stream, `Truncated` if the stream stops inside a frame,
   then the end marker k times (and so on: never None) — the codec is consulted at the 0-byte read although the
   buffer is empty *)
Theorem lps_chunk_independent sc k :
  exists its r,
    decodes lp_decode (stream sc) its r /\
    forall fuel, (length sc + length its + 1 + k + io_errors sc <= fuel)%nat ->
      exists rest, frames (run_read lp_decode lps_decode_eof fuel 0 sc rinit)
                   = map Item its ++ lps_tail r ++ repeat (Item LEnd) k ++ rest.
Proof.
  destruct (decodes_total _ lp_consuming (stream sc)) as (its & r & Hd).
  exists its, r. split; [exact Hd|]. intros fuel Hf.
  pose proof (lps_eoftr r k (decodes_residue _ _ _ _ lp_prefix_stable Hd)) as He.
  destruct (read_chunk_independent_prefix _ _ lps_decode_eof lp_prefix_stable sc its r _ fuel Hd He) as (rest & E & _).
  - rewrite app_length, repeat_length. destruct r; cbn [lps_tail length]; lia.
  - exists rest. rewrite E, <- !app_assoc. reflexivity.
Qed.

Lemma lp_decodes_frames ps :
  Forall (fun p => (length p <= 254)%nat) ps ->
  decodes lp_decode (concat (map lp_frame ps)) (map LOk ps) [].
Proof.
  induction 1 as [|p ps Hp _ IH]; cbn [map concat]; [now constructor|].
  econstructor; [|exact IH]. change (lp_frame p) with (Z.of_nat (length p) :: p). cbn [app]. unfold lp_decode.
  destruct (Z.eqb_spec (Z.of_nat (length p)) 255) as [E|_]; [lia|].
  rewrite Nat2Z.id.
  destruct (Nat.ltb_spec (length (p ++ concat (map lp_frame ps))) (length p)) as [Hlt|_];
    [rewrite app_length in Hlt; lia|].
  rewrite firstn_app, skipn_app, Nat.sub_diag, firstn_all, skipn_all. cbn [firstn skipn app].
  now rewrite app_nil_r.
Qed.

(* ---- BytesCodec: NOT prefix-stable (a frame is whatever is buffered) ---- *)
Lemma bytes_not_prefix_stable : ~ prefix_stable bytes_decode.
Proof.
  intros H. pose proof (ps_some H [1] (BOk [1]) [] [2] eq_refl) as E. discriminate E.
Qed.

Section BytesFacts.
  Notation nib := (next_item bytes_decode bytes_decode_eof).

  Definition bj (st : rstate) : Prop := eof st = false /\ (readable st = false -> rbuf st = []).

  Definition bpost (st : rstate) (sc : list rd) (out : res bitem * rstate * list rd) : Prop :=
    let '(r, st', sc') := out in
    (length sc' <= length sc)%nat /\
    match r with
    | Pending => bj st' /\ rbuf st' ++ stream sc' = rbuf st ++ stream sc
                 /\ io_errors sc' = io_errors sc /\ (length sc' < length sc)%nat
    | IoError => bj st' /\ rbuf st' ++ stream sc' = rbuf st ++ stream sc
                 /\ S (io_errors sc') = io_errors sc /\ (length sc' < length sc)%nat
    | Item (BOk p) => p <> [] /\ bj st' /\ p ++ rbuf st' ++ stream sc' = rbuf st ++ stream sc
                      /\ io_errors sc' = io_errors sc
    | Item BRemaining => False
    | Done => rbuf st ++ stream sc = [] /\ io_errors sc = O
    | Panic => False
    end.

  Lemma bpost_weaken_chunk st b bs sc n out :
    rbuf st = [] ->
    bpost (mkR (b :: bs) true false n) sc out -> bpost st (RChunk (b :: bs) :: sc) out.
  Proof.
    intros Hb. destruct out as [[r st'] sc']. unfold bpost. cbn [rbuf stream io_errors length].
    rewrite Hb. cbn [app]. intros [Hl H]. split; [lia|].
    destruct r as [|[p|]| | |]; try exact H.
    - destruct H as (H1 & H2 & H3 & H4). split; [exact H1|]. split; [exact H2|]. split; [exact H3|lia].
    - destruct H as (H1 & H2 & H3 & H4). split; [exact H1|]. split; [exact H2|]. split; [exact H3|lia].
  Qed.

  Lemma bytes_at_eof n : at_eof bytes_decode_eof [] n = (Done, mkR [] true true (S n)).
  Proof. reflexivity. Qed.

  Lemma bytes_phase st sc : bj st ->
    match decode_phase bytes_decode bytes_decode_eof st with
    | Ret r st' => bpost st sc (r, st', sc)
    | Fall st1 => eof st1 = false /\ rbuf st1 = [] /\ rbuf st = []
    end.
  Proof.
    intros [Ee Hb]. unfold decode_phase. rewrite Ee. destruct (readable st) eqn:Er.
    - destruct (rbuf st) as [|c t] eqn:Eb; cbn [bytes_decode].
      + cbn [eof rbuf]. auto.
      + unfold bpost. rewrite Eb. cbn [rbuf]. split; [lia|]. split; [discriminate|].
        split; [split; [reflexivity|intros H; discriminate H]|]. split; reflexivity.
    - rewrite (Hb eq_refl). auto.
  Qed.

  Lemma bytes_poll sc : forall st, bj st -> bpost st sc (nib sc st).
  Proof.
    induction sc as [|x sc' IH]; intros st Hj; rewrite next_item_eq;
      match goal with |- bpost _ ?s _ => pose proof (bytes_phase st s Hj) as Hp end;
      destruct (decode_phase bytes_decode bytes_decode_eof st) as [r st'|st1]; try exact Hp;
      destruct Hp as (Ee1 & Eb1 & Eb); rewrite Ee1.
    - cbn [read_step]. rewrite Eb1, bytes_at_eof. unfold bpost. rewrite Eb.
      cbn [stream io_errors app length]. auto.
    - destruct x as [[|b bs]| | |]; cbn [read_step]; rewrite ?Eb1, ?bytes_at_eof.
      + unfold bpost. rewrite Eb. cbn [stream io_errors app length]. split; [lia|]. auto.
      + cbn [app]. eapply bpost_weaken_chunk; [exact Eb|]. apply IH.
        split; [reflexivity|intros H; discriminate H].
      + unfold bpost. cbn [stream io_errors length]. rewrite Eb1, Eb. split; [lia|].
        split; [split; [exact Ee1|intros _; exact Eb1]|]. split; [reflexivity|]. split; [reflexivity|lia].
      + unfold bpost. rewrite Eb. cbn [stream io_errors app length]. split; [lia|]. auto.
      + unfold bpost. cbn [stream io_errors length]. rewrite Eb1, Eb. split; [lia|].
        split; [split; [exact Ee1|intros _; exact Eb1]|]. split; [reflexivity|]. split; [reflexivity|lia].
  Qed.

  Definition bok (p : list Z) : res bitem := Item (BOk p).

  (* C13_bytes *)
  Theorem bytes_run fuel : forall sc st,
    bj st -> (length sc + length (rbuf st ++ stream sc) + 1 <= fuel)%nat ->
    exists ps, frames (run_read bytes_decode bytes_decode_eof fuel 0 sc st) = map bok ps ++ [Done]
               /\ concat ps = rbuf st ++ stream sc
               /\ Forall (fun p => p <> []) ps
               /\ ioerrs (run_read bytes_decode bytes_decode_eof fuel 0 sc st) = io_errors sc.
  Proof.
    induction fuel as [|f IH]; intros sc st Hj Hf; [lia|].
    cbn [run_read]. pose proof (bytes_poll sc st Hj) as Hp.
    destruct (nib sc st) as [[r st'] sc']. destruct Hp as [Hl H].
    destruct r as [|[p|]| | |].
    - destruct H as (Hj' & Hs & Hio & Hlt).
      destruct (IH sc' st' Hj') as (ps & H1 & H2 & H3 & H4); [rewrite Hs; lia|].
      exists ps. unfold frames, ioerrs in *. cbn [map fst filter is_frame is_ioerr].
      rewrite H1, H2, H4, Hs. auto.
    - destruct H as (Hne & Hj' & Hs & Hio).
      assert (Hlen : (length (rbuf st ++ stream sc) = length p + length (rbuf st' ++ stream sc'))%nat)
        by (rewrite <- Hs, app_length; reflexivity).
      assert (1 <= length p)%nat by (destruct p; [congruence|cbn [length]; lia]).
      destruct (IH sc' st' Hj') as (ps & H1 & H2 & H3 & H4); [lia|].
      exists (p :: ps). unfold frames, ioerrs in *. cbn [map fst filter is_frame is_ioerr concat].
      rewrite H1, H2, H4, <- Hs. repeat split; auto.
    - destruct H.
    - destruct H as (Hj' & Hs & Hio & Hlt).
      destruct (IH sc' st' Hj') as (ps & H1 & H2 & H3 & H4); [rewrite Hs; lia|].
      exists ps. unfold frames, ioerrs in *. cbn [map fst filter is_frame is_ioerr length].
      rewrite H1, H2, H4, Hs. auto.
    - destruct H as [Hs Hio]. exists []. unfold frames, ioerrs. cbn [run_more map fst filter is_frame is_ioerr length concat app].
      rewrite Hs, Hio. auto.
    - destruct H.
  Qed.

  Theorem bytes_concat sc fuel :
    (length sc + length (stream sc) + 1 <= fuel)%nat ->
    exists ps, frames (run_read bytes_decode bytes_decode_eof fuel 0 sc rinit) = map bok ps ++ [Done]
               /\ concat ps = stream sc
               /\ Forall (fun p => p <> []) ps
               /\ ioerrs (run_read bytes_decode bytes_decode_eof fuel 0 sc rinit) = io_errors sc.
  Proof.
    intros Hf. apply (bytes_run fuel sc rinit); [split; [reflexivity|intros _; reflexivity]|exact Hf].
  Qed.
End BytesFacts.

(* ===================================================================================== *)
(* Write half                                                                            *)
(* ===================================================================================== *)

(* the bytes the transport took during a call, in order *)
Fixpoint wire (evs : list wev) : list Z :=
  match evs with
  | [] => []
  | EvWrite bs :: t => bs ++ wire t
  | _ :: t => wire t
  end.

Lemma wire_app e1 e2 : wire (e1 ++ e2) = wire e1 ++ wire e2.
Proof.
  induction e1 as [|e t IH]; [reflexivity|]. destruct e; cbn [app wire]; rewrite ?IH, ?app_assoc; reflexivity.
Qed.

(* a poll_write that took a non-empty prefix *)
Definition is_write (e : wev) : bool := match e with EvWrite (_ :: _) => true | _ => false end.

(* how a call that stopped inside the write loop ended *)
Definition stop_event (r : wres) (e : wev) : Prop :=
  (r = RPend /\ e = EvWPending) \/ (r = RIoErr /\ e = EvWErr) \/ (r = RWriteZero /\ e = EvWZero).

Lemma write_loop_spec w : forall buf o buf' w' evs,
  write_loop w buf = (o, buf', w', evs) ->
  wire evs ++ buf' = buf /\
  match o with
  | None => buf' = [] /\ forallb is_write evs = true
  | Some r => buf' <> [] /\
              exists evs0 e, evs = evs0 ++ [e] /\ forallb is_write evs0 = true /\ stop_event r e
  end.
Proof.
  induction w as [|a w IH]; intros buf o buf' w' evs H.
  - destruct buf as [|b t]; cbn [write_loop] in H; injection H as <- <- <- <-.
    + auto.
    + cbn [wire forallb is_write andb]. rewrite !app_nil_r. auto.
  - destruct buf as [|b t]; [cbn [write_loop] in H; injection H as <- <- <- <-; auto|].
    cbn [write_loop] in H. destruct a as [k| | |].
    + destruct (N.to_nat k) as [|n] eqn:En.
      * injection H as <- <- <- <-. split; [reflexivity|]. split; [discriminate|].
        exists [], EvWZero. unfold stop_event. repeat split; auto.
      * destruct (write_loop w (skipn (S n) (b :: t))) as [[[o1 buf1] w1] evs1] eqn:E.
        injection H as <- <- <- <-. destruct (IH _ _ _ _ _ E) as [Hw Ho].
        split; [cbn [wire]; rewrite <- app_assoc, Hw; exact (firstn_skipn (S n) (b :: t))|].
        destruct o1 as [r|].
        -- destruct Ho as (Hne & evs0 & e & -> & Hf & Hs). split; [exact Hne|].
           exists (EvWrite (firstn (S n) (b :: t)) :: evs0), e. cbn [firstn forallb is_write]. auto.
        -- destruct Ho as [-> Hf]. cbn [firstn forallb is_write]. auto.
    + injection H as <- <- <- <-. split; [reflexivity|]. split; [discriminate|].
      exists [], EvWPending. unfold stop_event. repeat split; auto.
    + injection H as <- <- <- <-. split; [reflexivity|]. split; [discriminate|].
      exists [], EvWZero. unfold stop_event. repeat split; auto.
    + injection H as <- <- <- <-. split; [reflexivity|]. split; [discriminate|].
      exists [], EvWErr. unfold stop_event. repeat split; auto.
Qed.

Lemma forallb_is_write_no e evs : forallb is_write evs = true -> is_write e = false -> ~ In e evs.
Proof.
  intros Hf He Hin. rewrite forallb_forall in Hf. specialize (Hf _ Hin). congruence.
Qed.

(* what a call returned, seen from the transport's record: every event but the last is a
   non-empty write; the last event determines the result *)
Definition ends_with (evs : list wev) (last : list wev) : Prop :=
  exists evs0, evs = evs0 ++ last /\ forallb is_write evs0 = true.

Lemma io_flush_spec st r st' e :
  io_flush st = (r, st', e) ->
  wbuf st' = wbuf st /\ exists a, e = [EvFlush a] /\ r = wres_of a.
Proof.
  unfold io_flush. destruct (fs st) as [|a t]; intros H; injection H as <- <- <-; cbn [wbuf]; eauto.
Qed.

Lemma io_shutdown_spec st r st' e :
  io_shutdown st = (r, st', e) ->
  wbuf st' = wbuf st /\ exists a, e = [EvShutdown a] /\ r = wres_of a.
Proof.
  unfold io_shutdown. destruct (ss st) as [|a t]; intros H; injection H as <- <- <-; cbn [wbuf]; eauto.
Qed.

Lemma wres_of_ok a : wres_of a = ROk -> a = FOk.
Proof. destruct a; intros H; [reflexivity|discriminate H|discriminate H]. Qed.
Lemma wres_of_not_wz a : wres_of a <> RWriteZero.
Proof. destruct a; discriminate. Qed.

(* Framed::flush *)
Lemma flush_spec st r st' evs :
  flush st = (r, st', evs) ->
  wire evs ++ wbuf st' = wbuf st /\
  (r = ROk -> wbuf st' = [] /\ ends_with evs [EvFlush FOk]) /\
  (r = RWriteZero <-> In EvWZero evs) /\
  (r = RWriteZero -> wbuf st' <> [] /\ ends_with evs [EvWZero]).
Proof.
  unfold flush. destruct (write_loop (ws st) (wbuf st)) as [[[o buf'] w'] e1] eqn:E.
  destruct (write_loop_spec _ _ _ _ _ _ E) as [Hw Ho]. destruct o as [r1|].
  - intros H. injection H as <- <- <-. cbn [wbuf]. destruct Ho as (Hne & evs0 & e & -> & Hf & Hs).
    split; [exact Hw|]. split; [|split; [split|]].
    + intros ->. destruct Hs as [[H _]|[[H _]|[H _]]]; discriminate H.
    + intros ->. destruct Hs as [[H _]|[[H _]|[_ ->]]]; try discriminate H. apply in_or_app. right. now left.
    + intros Hin. apply in_app_or in Hin as [Hin|[He|[]]].
      * exfalso. exact (forallb_is_write_no EvWZero evs0 Hf eq_refl Hin).
      * subst e. destruct Hs as [[_ H]|[[_ H]|[-> _]]]; try discriminate H. reflexivity.
    + intros ->. split; [exact Hne|]. exists evs0.
      destruct Hs as [[H _]|[[H _]|[_ ->]]]; try discriminate H. auto.
  - destruct Ho as [-> Hf].
    destruct (io_flush (mkW [] w' (fs st) (ss st))) as [[r2 st2] e2] eqn:E2.
    destruct (io_flush_spec _ _ _ _ E2) as (Hb & a & -> & ->). cbn [wbuf] in Hb.
    intros H. injection H as <- <- <-. rewrite wire_app, Hb. cbn [wire]. rewrite !app_nil_r in *.
    split; [exact Hw|]. split; [|split; [split|]].
    + intros Ha. apply wres_of_ok in Ha as ->. split; [reflexivity|]. exists e1. auto.
    + intros Ha. destruct (wres_of_not_wz _ Ha).
    + intros Hin. apply in_app_or in Hin as [Hin|[Hin|[]]]; [|discriminate Hin].
      exfalso. exact (forallb_is_write_no EvWZero e1 Hf eq_refl Hin).
    + intros Ha. destruct (wres_of_not_wz _ Ha).
Qed.

(* Framed::close (after the fix) *)
Lemma close_spec st r st' evs :
  close st = (r, st', evs) ->
  wire evs ++ wbuf st' = wbuf st /\
  (r = ROk -> wbuf st' = [] /\ ends_with evs [EvFlush FOk; EvShutdown FOk]) /\
  (r = RWriteZero <-> In EvWZero evs) /\
  (r = RWriteZero -> wbuf st' <> [] /\ ends_with evs [EvWZero]).
Proof.
  unfold close. destruct (flush st) as [[r1 st1] e1] eqn:E.
  destruct (flush_spec _ _ _ _ E) as (Hw & Hok & Hz & Hz2).
  destruct r1;
    try (intros H; injection H as <- <- <-; split; [exact Hw|]; split; [intros H; discriminate H|];
         split; [exact Hz|exact Hz2]).
  destruct (io_shutdown st1) as [[r2 st2] e2] eqn:E2.
  destruct (io_shutdown_spec _ _ _ _ E2) as (Hb & a & -> & ->).
  destruct (Hok eq_refl) as [Hb1 (evs0 & -> & Hf)].
  intros H. injection H as <- <- <-. rewrite wire_app, Hb. cbn [wire]. rewrite app_nil_r.
  split; [exact Hw|]. split; [|split; [split|]].
  - intros Ha. apply wres_of_ok in Ha as ->. split; [exact Hb1|]. exists evs0.
    rewrite <- app_assoc. auto.
  - intros Ha. destruct (wres_of_not_wz _ Ha).
  - intros Hin. apply in_app_or in Hin as [Hin|[Hin|[]]]; [|discriminate Hin].
    destruct Hz as [_ Hz]. discriminate (Hz Hin).
  - intros Ha. destruct (wres_of_not_wz _ Ha).
Qed.

(* D4: the pinned close returned Ready(Ok) with bytes still buffered *)
Lemma close_pinned_refuted :
  exists st, let '(r, st', evs) := close_pinned st in
             r = ROk /\ wbuf st' <> [] /\ wire evs = [].
Proof. exists (mkW [0] [] [] []). cbn. repeat split. discriminate. Qed.

Lemma write_ready_spec st : write_ready st = (wlen st <? HW)%N.
Proof.
  unfold write_ready, wlen, hw_pred, HW. destruct (skipn _ (wbuf st)) as [|b t] eqn:E; symmetry.
  - apply N.ltb_lt. apply (f_equal (@length Z)) in E. rewrite skipn_length in E. cbn [length] in E. lia.
  - apply N.ltb_ge. apply (f_equal (@length Z)) in E. rewrite skipn_length in E. cbn [length] in E. lia.
Qed.

Section WriteFacts.
  Variable I : Type.
  Variable encode : I -> list Z -> bool * list Z.
  (* the encoder law: an item either appends its encoding `encb it` to dst, or is refused and
     dst is untouched *)
  Variable encb : I -> option (list Z).
  Definition enc_law : Prop :=
    forall it dst, encode it dst = match encb it with Some bs => (true, dst ++ bs) | None => (false, dst) end.

  Notation wstep := (wstep encode).
  Notation run_write := (run_write encode).

  (* the encoding of the item a call accepted (start_send returned Ok), else nothing *)
  Definition accepted (op : wop I) (r : wres) : list Z :=
    match op, r with
    | OSend it, ROk => match encb it with Some bs => bs | None => [] end
    | _, _ => []
    end.

  Fixpoint sent (ops : list (wop I)) (outs : list (wres * list wev * bool * bool)) : list Z :=
    match ops, outs with
    | op :: ops', (r, _, _, _) :: outs' => accepted op r ++ sent ops' outs'
    | _, _ => []
    end.

  Definition wire_of (outs : list (wres * list wev * bool * bool)) : list Z :=
    concat (map (fun o => wire (snd (fst (fst o)))) outs).

  (* one call: the transport takes a prefix of the buffer; the accepted item goes to its end *)
  Lemma wstep_lossless : enc_law -> forall st op r st' evs,
    wstep st op = (r, st', evs) -> wire evs ++ wbuf st' = wbuf st ++ accepted op r.
  Proof.
    intros Hl st op r st' evs H. destruct op as [|it| | |]; cbn [Framed.wstep] in H.
    - destruct (write_ready st).
      + injection H as <- <- <-. cbn [wire accepted app]. now rewrite app_nil_r.
      + destruct (flush_spec _ _ _ _ H) as [Hw _]. cbn [accepted]. now rewrite app_nil_r.
    - unfold write in H. rewrite Hl in H. destruct (encb it) as [bs|] eqn:Eb;
        injection H as <- <- <-; cbn [wire accepted app wbuf]; rewrite ?Eb, ?app_nil_r; reflexivity.
    - destruct (flush_spec _ _ _ _ H) as [Hw _]. cbn [accepted]. now rewrite app_nil_r.
    - destruct (close_spec _ _ _ _ H) as [Hw _]. cbn [accepted]. now rewrite app_nil_r.
    - injection H as <- <- <-. cbn [wire accepted app]. now rewrite app_nil_r.
  Qed.

  (* C14_lossless *)
  Theorem write_lossless : enc_law -> forall ops st outs fin,
    run_write ops st = (outs, fin) -> wire_of outs ++ wbuf fin = wbuf st ++ sent ops outs.
  Proof.
    intros Hl. induction ops as [|op ops IH]; intros st outs fin H; cbn [Framed.run_write] in H.
    - injection H as <- <-. cbn. now rewrite app_nil_r.
    - destruct (wstep st op) as [[r st'] evs] eqn:E.
      destruct (run_write ops st') as [outs' fin'] eqn:E'. injection H as <- <-.
      unfold wire_of. cbn [map concat fst snd sent]. fold (wire_of outs').
      rewrite <- app_assoc, (IH _ _ _ E'), app_assoc, (wstep_lossless Hl _ _ _ _ _ E).
      now rewrite <- app_assoc.
  Qed.

  Lemma run_write_app ops1 : forall ops2 st,
    run_write (ops1 ++ ops2) st =
    let '(o1, s1) := run_write ops1 st in
    let '(o2, s2) := run_write ops2 s1 in (o1 ++ o2, s2).
  Proof.
    induction ops1 as [|op ops1 IH]; intros ops2 st; cbn [app Framed.run_write].
    - destruct (run_write ops2 st) as [o2 s2]. reflexivity.
    - destruct (wstep st op) as [[r st'] evs]. rewrite IH.
      destruct (run_write ops1 st') as [o1 s1]. destruct (run_write ops2 s1) as [o2 s2]. reflexivity.
  Qed.

  (* at every point of every run what is on the wire is a prefix of the concatenation of the
     encodings of the items accepted so far; the rest of it is exactly write_buf *)
  Theorem write_prefix : enc_law -> forall ops1 ops2 st outs1 mid,
    wbuf st = [] -> run_write ops1 st = (outs1, mid) ->
    sent ops1 outs1 = wire_of outs1 ++ wbuf mid
    /\ exists outs2 fin, run_write (ops1 ++ ops2) st = (outs1 ++ outs2, fin)
                         /\ wire_of (outs1 ++ outs2) = wire_of outs1 ++ wire_of outs2.
  Proof.
    intros Hl ops1 ops2 st outs1 mid Hb H. split.
    - pose proof (write_lossless Hl _ _ _ _ H) as E. rewrite Hb in E. cbn [app] in E. now rewrite E.
    - rewrite run_write_app, H. destruct (run_write ops2 mid) as [o2 s2]. exists o2, s2.
      split; [reflexivity|]. unfold wire_of. now rewrite map_app, concat_app.
  Qed.

  (* C14_flush_ok / C14_close_ok *)
  Theorem flush_ok st st' evs :
    wstep st OFlush = (ROk, st', evs) ->
    wbuf st' = [] /\ wire evs = wbuf st /\ ends_with evs [EvFlush FOk].
  Proof.
    cbn [Framed.wstep]. intros H. destruct (flush_spec _ _ _ _ H) as (Hw & Hok & _).
    destruct (Hok eq_refl) as [Hb He]. rewrite Hb, app_nil_r in Hw. auto.
  Qed.

  Theorem close_ok st st' evs :
    wstep st OClose = (ROk, st', evs) ->
    wbuf st' = [] /\ wire evs = wbuf st /\ ends_with evs [EvFlush FOk; EvShutdown FOk].
  Proof.
    cbn [Framed.wstep]. intros H. destruct (close_spec _ _ _ _ H) as (Hw & Hok & _).
    destruct (Hok eq_refl) as [Hb He]. rewrite Hb, app_nil_r in Hw. auto.
  Qed.

  (* a successful poll_flush / poll_close at any point of any run: everything accepted so far is
     on the wire, in order, nothing else *)
  Theorem write_complete : enc_law -> forall ops op st outs1 mid st' evs,
    wbuf st = [] -> run_write ops st = (outs1, mid) ->
    op = OFlush \/ op = OClose -> wstep mid op = (ROk, st', evs) ->
    wire_of outs1 ++ wire evs = sent ops outs1 /\ wbuf st' = [].
  Proof.
    intros Hl ops op st outs1 mid st' evs Hb H Hop Hs.
    pose proof (write_lossless Hl _ _ _ _ H) as E. rewrite Hb in E. cbn [app] in E.
    destruct Hop as [-> | ->].
    - destruct (flush_ok _ _ _ Hs) as (H1 & H2 & _). now rewrite H2, E.
    - destruct (close_ok _ _ _ Hs) as (H1 & H2 & _). now rewrite H2, E.
  Qed.

  (* C14_backpressure *)
  Theorem ready_below_hw st : (wlen st < HW)%N -> wstep st OReady = (ROk, st, []).
  Proof. intros H. cbn [Framed.wstep]. rewrite write_ready_spec. apply N.ltb_lt in H. now rewrite H. Qed.

  Theorem ready_at_hw st : (HW <= wlen st)%N -> wstep st OReady = wstep st OFlush.
  Proof. intros H. cbn [Framed.wstep]. rewrite write_ready_spec. apply N.ltb_ge in H. now rewrite H. Qed.

  Theorem ready_ok_not_full st st' evs :
    wstep st OReady = (ROk, st', evs) -> (wlen st' < HW)%N.
  Proof.
    cbn [Framed.wstep]. rewrite write_ready_spec. destruct (N.ltb_spec (wlen st) HW) as [Hlt|Hge]; intros H.
    - injection H as <- <-. exact Hlt.
    - destruct (flush_spec _ _ _ _ H) as (_ & Hok & _). destruct (Hok eq_refl) as [Hb _].
      unfold wlen. rewrite Hb. reflexivity.
  Qed.

  (* start_send never touches the transport *)
  Theorem send_no_io st it r st' evs : wstep st (OSend it) = (r, st', evs) -> evs = [] /\ (r = ROk \/ r = REncErr).
  Proof.
    cbn [Framed.wstep]. unfold write. destruct (encode it (wbuf st)) as [[|] b]; intros H; injection H as <- <- <-; auto.
  Qed.

  (* C14_write_zero *)
  Theorem write_zero st op r st' evs :
    wstep st op = (r, st', evs) ->
    (r = RWriteZero <-> In EvWZero evs) /\
    (r = RWriteZero -> ends_with evs [EvWZero] /\ wbuf st' <> [] /\ wire evs ++ wbuf st' = wbuf st).
  Proof.
    intros H. destruct op as [|it| | |]; cbn [Framed.wstep] in H;
      [| | | |injection H as <- <- <-; split; [split; [discriminate|intros []]|discriminate]].
    - destruct (write_ready st).
      + injection H as <- <- <-. split; [split; [discriminate|intros []]|discriminate].
      + destruct (flush_spec _ _ _ _ H) as (Hw & _ & Hz & Hz2). split; [exact Hz|].
        intros Hr. destruct (Hz2 Hr). auto.
    - destruct (send_no_io _ _ _ _ _ H) as [-> Hr].
      split; [split; [intros ->; destruct Hr; discriminate|intros []]|intros ->; destruct Hr; discriminate].
    - destruct (flush_spec _ _ _ _ H) as (Hw & _ & Hz & Hz2). split; [exact Hz|].
      intros Hr. destruct (Hz2 Hr). auto.
    - destruct (close_spec _ _ _ _ H) as (Hw & _ & Hz & Hz2). split; [exact Hz|].
      intros Hr. destruct (Hz2 Hr). auto.
  Qed.

  (* the state-preserving conversions: no state change, no transport call, whatever is buffered stays buffered *)
  Theorem conv_noop st : wstep st OConv = (ROk, st, []).
  Proof. reflexivity. Qed.

  (* the transport answering 0 to the first write of a flush: WriteZero, buffer intact *)
  Theorem flush_zero_first st w :
    wbuf st <> [] -> (ws st = WZero :: w \/ ws st = WAccept 0 :: w) ->
    wstep st OFlush = (RWriteZero, mkW (wbuf st) w (fs st) (ss st), [EvWZero]).
  Proof.
    intros Hne Hw. cbn [Framed.wstep]. unfold flush. destruct (wbuf st) as [|b t]; [congruence|].
    destruct Hw as [-> | ->]; reflexivity.
  Qed.
End WriteFacts.

Arguments enc_law {I}.
Arguments sent {I}.
Arguments accepted {I}.

(* the three encoders satisfy the law *)
Definition lines_encb (s : list Z) : option (list Z) := Some (s ++ [10]).
Definition bytes_encb (p : list Z) : option (list Z) := Some p.
Definition lp_encb (p : list Z) : option (list Z) :=
  if (254 <? length p)%nat then None else Some (Z.of_nat (length p) :: p).

Lemma lines_enc_law : enc_law lines_encode lines_encb.
Proof. intros it dst. reflexivity. Qed.
Lemma bytes_enc_law : enc_law bytes_encode bytes_encb.
Proof. intros it dst. reflexivity. Qed.
Lemma lp_enc_law : enc_law lp_encode lp_encb.
Proof. intros it dst. unfold lp_encode, lp_encb. destruct (254 <? length it)%nat; reflexivity. Qed.
