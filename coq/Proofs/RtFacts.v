(* Proofs/RtFacts.v — invariants of the actix-rt transition system (Model/Rt.v) and soundness of the
   acceptance predicate.  All proofs for C09/C10 live here. *)
From AN Require Import Model.Rt.

(* ---------- Runtime::block_on ---------- *)
Lemma block_on_output : forall pend v spawned ran, fst (block_on pend v spawned ran) = v.
Proof. induction pend as [|n IH]; intros v spawned ran; cbn [block_on]; [reflexivity | apply IH]. Qed.
