(* Extraction of the codec models (ExtrOcamlBasic only; numbers stay positive/Z/N/nat). *)
From Coq Require Import Extraction ExtrOcamlBasic.
From AN Require Import Model.Lines.
Extraction Language OCaml.
Extraction "../ocaml/codec/gen.ml" run_lines encode valid.
