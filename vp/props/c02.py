"""C02 — per-worker concurrency never exceeds max_concurrent_connections."""
from props.srvlib import COMMON_META, gen_scripts, make_stream, bfs_stream, bld_stream, c02_pred, saturates

META = dict(COMMON_META)
META.update({
    "id": "C02",
    "design_ref": "§5 C02",
    "technique": "Coq proof (inductive invariant of the counter/availability protocol over all scripts, incl. every schedule at the send/inc "
                 "yield point) + extracted model vs the real Accept/Counter through a stepped driver",
    "level_text": "Theorem C02_limit: for every limit >= 1, 1..512 workers, any listeners and EVERY fault-free script of accept-thread calls and "
                  "environment steps (client connects, worker pick-ups, completions, commands, injected accept errors, and any of these scheduled at the "
                  "yield point between send and inc_counter) the accept loop neither panics nor spins and every worker has at most L connections in "
                  "progress; C02_limit_at_yield extends the bound to the states inside a dispatch; C02_saturated_unavailable / C02_beyond_limit_stays: "
                  "when every worker has exactly L connections in progress no worker is flagged and an accept call on any listener returns the state "
                  "unchanged (the connection stays in the backlog). The model (Model/Srv.v) is tied to the code by running "
                  "the same scripts on the real Accept + Counter + WakerQueue over real loopback TCP/Unix listeners (stepped driver hook) and comparing "
                  "dispatch events, per-worker queues, availability flags, pause/stop state and fault notices after every operation; the property "
                  "predicate (in-progress <= L at every step) is evaluated on the implementation trace.",
    "level_note": "Trusted: Coq kernel, extraction, OCaml driver, Rust harness and the cfg(actix_net_verif) hooks; the environment model (kernel "
                  "backlog FIFO, epoll/mio edges, Tokio mpsc FIFO) and the atomicity abstraction of DESIGN §4; limit 0 is outside the theorem "
                  "(the property's quantifier starts at 1). Generator quality bounds the tie.",
    "rule": "model-guided random scripts (ocaml/server/driver gen): W in 1..3, L in 1..4, listeners T/U/TU/TT/UT, length 10..40, with/without yield "
            "schedules, commands, injected errors, direct accept-thread calls; plus the regression corpus (the D1 overshoot histories). "
            "Non-trivial = some worker reaches its limit in the run; distinct = distinct script text.",
})


def streams(ctx):
    n = 2500 if ctx.tier == "quick" else 60000
    cases = gen_scripts(ctx, n, ["e", "ye", "ye", "cye", "ciye", "dye", "cidye", "dy"], ls=(1, 2, 3, 4))
    return [bfs_stream(ctx, c02_pred, "dc", saturates), make_stream("srv", cases, c02_pred,
                        "%d generated fault-free scripts + corpus; every snapshot compared, in-progress <= L checked on the implementation" % n,
                        saturates),
            bld_stream(ctx, ("C02",), ["", "a", "c", "b", "cb", "x", "bx", "z", "cz"], 104, 1500, ls=(1, 1, 2, 3, 4))]
