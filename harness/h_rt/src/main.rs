//! Correspondence harness for actix-rt (C09, C10).  One case per stdin line, one log per stdout line.
//!
//! case  := ("R" | "W") SP seed SP op*          R: SystemRunner::run, W: run_with_code
//! op    := n:<via>            Arbiter::new() on the system thread (s) or on the coordinator thread (f)
//!        | sp:<k>:<kind>:<via>  spawn a future   | sf:<k>:<kind>:<via>  spawn_fn
//!        | st:<k>:<via>       stop               via: o owner `Arbiter`, h cloned handle, t handle on a helper thread
//!        | ss:<code>:<via>    System::stop_with_code   via: s system thread, f coordinator thread, t helper thread
//!        | wr | j:<k> | d:<k> | aw:<k>:<tid>
//! kind  := c complete | b busy (blocks the thread a little) | p pend forever | x panic | e<code> System::current().stop_with_code
//!        | s Arbiter::current().stop()
//! log   := ret=<code|ok|err|none>;ops=<one char per op>;a0=<tid>:<thr>:<sys>,...;a1=...
//! The coordinator executes the ops strictly in order (so the global order of sends is the script order) and puts
//! seeded random delays between them; everything else (arbiter threads, the system thread) runs freely.
mod case;
mod blockon;

use std::io::{self, BufRead, Write};

fn main() {
    let mode = std::env::args().nth(1).expect("mode");
    std::panic::set_hook(Box::new(|_| {}));
    let f: fn(&str) -> String = match mode.as_str() {
        "rt" => case::run_line,
        "blockon" => blockon::run_line,
        m => {
            eprintln!("unknown mode {m}");
            std::process::exit(2)
        }
    };
    let stdin = io::stdin();
    let stdout = io::stdout();
    for line in stdin.lock().lines() {
        let line = line.unwrap();
        let out = f(line.trim_end());
        let mut o = stdout.lock();
        writeln!(o, "{}", out).unwrap();
        o.flush().unwrap();
    }
}
