(* Proofs/Utf8Facts.v — lemmas about Base/Utf8.v (`valid`, `boundary`, `cont`, `encode_scalar`).
   Used by C20 (ByteString) and available to the codec group.

   Contents
     1. boolean range helpers
     2. an inductive view `wf` of `valid` (one constructor per row group of Table 3-7) and
        `valid_wf : valid l = true <-> wf l`
     3. `valid_app`, `valid_app_inv`
     4. `boundary` arithmetic, the crux `split_valid`, `slice_valid`, and the converses
        (`valid_firstn_boundary`, `valid_skipn_boundary`, `valid_slice_boundaries`)
     5. the characterisation by scalar values: `valid_iff_scalars`
   (bytewise order = code point order, `lex_encode_scalars`, is in Proofs/BStrFacts.v §6) *)
From AN Require Import Base.Utf8.
From Coq Require Import Lia.

(* ------------------------------------------------------------------ 1. helpers *)
Lemma inr_true lo hi b : inr lo hi b = true <-> lo <= b <= hi.
Proof. unfold inr. rewrite andb_true_iff, !Z.leb_le. tauto. Qed.

Lemma inr_false lo hi b : inr lo hi b = false <-> b < lo \/ hi < b.
Proof. unfold inr. rewrite andb_false_iff, !Z.leb_gt. tauto. Qed.

Lemma cont_true b : cont b = true <-> 128 <= b <= 191.
Proof. apply inr_true. Qed.

Lemma cont_false b : cont b = false <-> b < 128 \/ 191 < b.
Proof. apply inr_false. Qed.

(* second-byte constraints of the 3- and 4-byte rows of Table 3-7 *)
Definition snd3 (b0 b1 : Z) : bool :=
  if b0 =? 224 then inr 160 191 b1 else if b0 =? 237 then inr 128 159 b1 else cont b1.
Definition snd4 (b0 b1 : Z) : bool :=
  if b0 =? 240 then inr 144 191 b1 else if b0 =? 244 then inr 128 143 b1 else cont b1.

Lemma snd3_cont b0 b1 : snd3 b0 b1 = true -> cont b1 = true.
Proof.
  unfold snd3. destruct (b0 =? 224); [|destruct (b0 =? 237)]; rewrite ?inr_true, ?cont_true; lia.
Qed.

Lemma snd4_cont b0 b1 : snd4 b0 b1 = true -> cont b1 = true.
Proof.
  unfold snd4. destruct (b0 =? 240); [|destruct (b0 =? 244)]; rewrite ?inr_true, ?cont_true; lia.
Qed.

(* ------------------------------------------------------------------ 2. unfolding `valid` *)
Lemma valid_c1 b0 t : inr 0 127 b0 = true -> valid (b0 :: t) = valid t.
Proof. intros H. cbn [valid]. now rewrite H. Qed.

Lemma valid_c2 b0 b1 t : inr 194 223 b0 = true -> valid (b0 :: b1 :: t) = cont b1 && valid t.
Proof.
  intros H. cbn [valid]. rewrite H.
  replace (inr 0 127 b0) with false; [reflexivity|].
  symmetry. apply inr_false. apply inr_true in H. lia.
Qed.

Lemma valid_c3 b0 b1 b2 t : inr 224 239 b0 = true ->
  valid (b0 :: b1 :: b2 :: t) = snd3 b0 b1 && cont b2 && valid t.
Proof.
  intros H. cbn [valid]. rewrite H.
  replace (inr 0 127 b0) with false by (symmetry; apply inr_false; apply inr_true in H; lia).
  replace (inr 194 223 b0) with false by (symmetry; apply inr_false; apply inr_true in H; lia).
  reflexivity.
Qed.

Lemma valid_c4 b0 b1 b2 b3 t : inr 240 244 b0 = true ->
  valid (b0 :: b1 :: b2 :: b3 :: t) = snd4 b0 b1 && cont b2 && cont b3 && valid t.
Proof.
  intros H. cbn [valid]. rewrite H.
  replace (inr 0 127 b0) with false by (symmetry; apply inr_false; apply inr_true in H; lia).
  replace (inr 194 223 b0) with false by (symmetry; apply inr_false; apply inr_true in H; lia).
  replace (inr 224 239 b0) with false by (symmetry; apply inr_false; apply inr_true in H; lia).
  reflexivity.
Qed.

(* the inductive view *)
Inductive wf : list Z -> Prop :=
| wf_nil : wf []
| wf_1 b0 t : inr 0 127 b0 = true -> wf t -> wf (b0 :: t)
| wf_2 b0 b1 t : inr 194 223 b0 = true -> cont b1 = true -> wf t -> wf (b0 :: b1 :: t)
| wf_3 b0 b1 b2 t : inr 224 239 b0 = true -> snd3 b0 b1 = true -> cont b2 = true ->
                    wf t -> wf (b0 :: b1 :: b2 :: t)
| wf_4 b0 b1 b2 b3 t : inr 240 244 b0 = true -> snd4 b0 b1 = true -> cont b2 = true ->
                       cont b3 = true -> wf t -> wf (b0 :: b1 :: b2 :: b3 :: t).

Lemma wf_valid l : wf l -> valid l = true.
Proof.
  induction 1 as [|b0 t H0 _ IH|b0 b1 t H0 H1 _ IH|b0 b1 b2 t H0 H1 H2 _ IH
                 |b0 b1 b2 b3 t H0 H1 H2 H3 _ IH].
  - reflexivity.
  - now rewrite valid_c1.
  - now rewrite valid_c2, H1, IH.
  - now rewrite valid_c3, H1, H2, IH.
  - now rewrite valid_c4, H1, H2, H3, IH.
Qed.

Lemma valid_wf_len n : forall l, (length l <= n)%nat -> valid l = true -> wf l.
Proof.
  induction n as [|n IH]; intros l Hlen Hv.
  - destruct l; [constructor|cbn in Hlen; lia].
  - destruct l as [|b0 t0]; [constructor|].
    cbn [length] in Hlen.
    destruct (inr 0 127 b0) eqn:E1.
    { rewrite valid_c1 in Hv by exact E1. apply wf_1; [exact E1|apply IH; [lia|exact Hv]]. }
    destruct t0 as [|b1 t1]; [cbn [valid] in Hv; rewrite E1 in Hv; discriminate|].
    cbn [length] in Hlen.
    destruct (inr 194 223 b0) eqn:E2.
    { rewrite valid_c2 in Hv by exact E2. apply andb_true_iff in Hv as [Hc Hv].
      apply wf_2; [exact E2|exact Hc|apply IH; [lia|exact Hv]]. }
    destruct t1 as [|b2 t2]; [cbn [valid] in Hv; rewrite E1, E2 in Hv; discriminate|].
    cbn [length] in Hlen.
    destruct (inr 224 239 b0) eqn:E3.
    { rewrite valid_c3 in Hv by exact E3. apply andb_true_iff in Hv as [Hv Hv3].
      apply andb_true_iff in Hv as [Hs Hc].
      apply wf_3; [exact E3|exact Hs|exact Hc|apply IH; [lia|exact Hv3]]. }
    destruct t2 as [|b3 t3]; [cbn [valid] in Hv; rewrite E1, E2, E3 in Hv; discriminate|].
    cbn [length] in Hlen.
    destruct (inr 240 244 b0) eqn:E4.
    { rewrite valid_c4 in Hv by exact E4. apply andb_true_iff in Hv as [Hv Hv4].
      apply andb_true_iff in Hv as [Hv Hc3]. apply andb_true_iff in Hv as [Hs Hc2].
      apply wf_4; [exact E4|exact Hs|exact Hc2|exact Hc3|apply IH; [lia|exact Hv4]]. }
    cbn [valid] in Hv. rewrite E1, E2, E3, E4 in Hv. discriminate.
Qed.

Theorem valid_wf l : valid l = true <-> wf l.
Proof. split; [apply (valid_wf_len (length l)); lia|apply wf_valid]. Qed.

(* the first byte of a valid string is never a continuation byte *)
Lemma wf_head_not_cont b t : wf (b :: t) -> cont b = false.
Proof.
  intros H; inversion H; subst; apply cont_false;
    match goal with H0 : inr _ _ b = true |- _ => apply inr_true in H0; lia end.
Qed.

Lemma valid_head_not_cont b t : valid (b :: t) = true -> cont b = false.
Proof. intros H; apply valid_wf in H; eapply wf_head_not_cont; eauto. Qed.

(* every byte of a valid string is a byte *)
Lemma valid_bytes_ok l : valid l = true -> bytes_ok l = true.
Proof.
  intros H; apply valid_wf in H. unfold bytes_ok.
  induction H as [|b0 t H0 _ IH|b0 b1 t H0 H1 _ IH|b0 b1 b2 t H0 H1 H2 _ IH
                 |b0 b1 b2 b3 t H0 H1 H2 H3 _ IH]; cbn [forallb]; try reflexivity;
    try (apply snd3_cont in H1); try (apply snd4_cont in H1);
    rewrite IH, ?andb_true_r; unfold is_byte; rewrite ?andb_true_iff, ?inr_true;
    rewrite ?inr_true, ?cont_true in *; lia.
Qed.

(* ------------------------------------------------------------------ 3. concatenation *)
Lemma wf_app a b : wf a -> wf b -> wf (a ++ b).
Proof.
  intros Ha Hb; induction Ha; cbn [app]; [exact Hb| | | |]; constructor; assumption.
Qed.

Theorem valid_app a b : valid a = true -> valid b = true -> valid (a ++ b) = true.
Proof. rewrite !valid_wf. apply wf_app. Qed.

Lemma wf_app_inv a b : wf a -> wf (a ++ b) -> wf b.
Proof.
  intros Ha; induction Ha; cbn [app]; intros Hab; [exact Hab| | | |];
    apply IHHa; inversion Hab; subst; try assumption;
    repeat match goal with H : inr _ _ _ = true |- _ => apply inr_true in H end; lia.
Qed.

Theorem valid_app_inv a b : valid a = true -> valid (a ++ b) = true -> valid b = true.
Proof. rewrite !valid_wf. apply wf_app_inv. Qed.

Lemma valid_concat ls : Forall (fun l => valid l = true) ls -> valid (concat ls) = true.
Proof.
  induction 1 as [|l ls Hl _ IH]; cbn [concat]; [reflexivity|now apply valid_app].
Qed.

(* ------------------------------------------------------------------ 4. char boundaries *)
Lemma boundary_0 l : boundary l 0 = true.
Proof. reflexivity. Qed.

Lemma boundary_len l : boundary l (length l) = true.
Proof. unfold boundary. destruct (length l) eqn:E; [reflexivity|]. now rewrite Nat.eqb_refl. Qed.

Lemma boundary_le l i : boundary l i = true -> (i <= length l)%nat.
Proof.
  unfold boundary. destruct i as [|i]; [lia|].
  destruct (Nat.eqb_spec (S i) (length l)) as [->|_]; [lia|].
  destruct (nth_error l (S i)) eqn:E; [|discriminate].
  intros _. assert (nth_error l (S i) <> None) as H by congruence.
  apply nth_error_Some in H. lia.
Qed.

(* what `boundary` says for an index strictly inside the string *)
Lemma boundary_inside l i b : nth_error l i = Some b -> (0 < i)%nat ->
  boundary l i = negb (cont b).
Proof.
  intros E Hi. unfold boundary. destruct i as [|i]; [lia|].
  assert (nth_error l (S i) <> None) as H by congruence. apply nth_error_Some in H.
  destruct (Nat.eqb_spec (S i) (length l)) as [E2|_]; [lia|]. now rewrite E.
Qed.

Lemma boundary_cons b t i : boundary (b :: t) (S i) = true -> boundary t i = true.
Proof.
  destruct i as [|i]; [reflexivity|]. unfold boundary. cbn [length nth_error Nat.eqb]. trivial.
Qed.

(* the converse needs to know that the byte after `b` starts a sequence *)
Lemma boundary_cons_rev b t i : boundary t i = true ->
  (i = 0%nat -> match t with [] => True | b' :: _ => cont b' = false end) ->
  boundary (b :: t) (S i) = true.
Proof.
  destruct i as [|i].
  - intros _ H. specialize (H eq_refl). unfold boundary. destruct t as [|b' t']; [reflexivity|].
    cbn [length nth_error Nat.eqb]. now rewrite H.
  - intros H _. exact H.
Qed.

(* an index at which a continuation byte sits is not a boundary *)
Lemma boundary_cont l i b : nth_error l i = Some b -> cont b = true -> (0 < i)%nat ->
  boundary l i = false.
Proof. intros E Hc Hi. rewrite (boundary_inside _ _ _ E Hi), Hc. reflexivity. Qed.

(* THE CRUX: splitting a valid string at a char boundary gives two valid strings *)
Lemma wf_split l : wf l -> forall i, boundary l i = true ->
  wf (firstn i l) /\ wf (skipn i l).
Proof.
  induction 1 as [|b0 t H0 Ht IH|b0 b1 t H0 H1 Ht IH|b0 b1 b2 t H0 H1 H2 Ht IH
                 |b0 b1 b2 b3 t H0 H1 H2 H3 Ht IH]; intros i Hb.
  - destruct i; cbn; split; constructor.
  - destruct i as [|i]; [split; [constructor|now constructor]|].
    apply boundary_cons in Hb. destruct (IH _ Hb) as [Ha Hs].
    cbn [firstn skipn]. split; [now constructor|exact Hs].
  - destruct i as [|[|i]].
    + split; [constructor|now constructor].
    + rewrite (boundary_cont (b0 :: b1 :: t) 1 b1) in Hb by (trivial; lia). discriminate.
    + do 2 apply boundary_cons in Hb. destruct (IH _ Hb) as [Ha Hs].
      cbn [firstn skipn]. split; [now constructor|exact Hs].
  - pose proof (snd3_cont _ _ H1) as H1c. destruct i as [|[|[|i]]].
    + split; [constructor|now constructor].
    + rewrite (boundary_cont (b0 :: b1 :: b2 :: t) 1 b1) in Hb by (trivial; lia). discriminate.
    + rewrite (boundary_cont (b0 :: b1 :: b2 :: t) 2 b2) in Hb by (trivial; lia). discriminate.
    + do 3 apply boundary_cons in Hb. destruct (IH _ Hb) as [Ha Hs].
      cbn [firstn skipn]. split; [now constructor|exact Hs].
  - pose proof (snd4_cont _ _ H1) as H1c. destruct i as [|[|[|[|i]]]].
    + split; [constructor|now constructor].
    + rewrite (boundary_cont (b0 :: b1 :: b2 :: b3 :: t) 1 b1) in Hb by (trivial; lia). discriminate.
    + rewrite (boundary_cont (b0 :: b1 :: b2 :: b3 :: t) 2 b2) in Hb by (trivial; lia). discriminate.
    + rewrite (boundary_cont (b0 :: b1 :: b2 :: b3 :: t) 3 b3) in Hb by (trivial; lia). discriminate.
    + do 4 apply boundary_cons in Hb. destruct (IH _ Hb) as [Ha Hs].
      cbn [firstn skipn]. split; [now constructor|exact Hs].
Qed.

Theorem split_valid l i : valid l = true -> boundary l i = true -> (i <= length l)%nat ->
  valid (firstn i l) = true /\ valid (skipn i l) = true.
Proof. rewrite !valid_wf. intros H Hb _. now apply wf_split. Qed.

(* `boundary` of a suffix *)
Lemma nth_error_skipn {A} (l : list A) a k : nth_error (skipn a l) k = nth_error l (a + k).
Proof.
  revert l; induction a as [|a IH]; intros l; [reflexivity|].
  destruct l as [|x l]; cbn [skipn Nat.add nth_error]; [now destruct k|apply IH].
Qed.

Lemma boundary_skipn l a b : (a <= b)%nat -> boundary l b = true ->
  boundary (skipn a l) (b - a) = true.
Proof.
  intros Hab Hb. pose proof (boundary_le _ _ Hb) as Hle.
  destruct (Nat.eq_dec b a) as [->|Hne]; [now rewrite Nat.sub_diag|].
  destruct (Nat.eq_dec b (length l)) as [->|Hne2].
  { rewrite <- skipn_length. apply boundary_len. }
  destruct (nth_error l b) as [x|] eqn:E; [|apply nth_error_None in E; lia].
  rewrite (boundary_inside _ _ _ E) in Hb by lia.
  rewrite (boundary_inside (skipn a l) (b - a) x); [exact Hb| |lia].
  rewrite nth_error_skipn. now replace (a + (b - a))%nat with b by lia.
Qed.

(* a sub-slice between two char boundaries is valid: `&s[a..b]` *)
Theorem slice_valid l a b : valid l = true -> (a <= b)%nat ->
  boundary l a = true -> boundary l b = true ->
  valid (firstn (b - a) (skipn a l)) = true.
Proof.
  intros Hv Hab Ha Hb.
  destruct (split_valid l a Hv Ha (boundary_le _ _ Ha)) as [_ Hs].
  pose proof (boundary_skipn l a b Hab Hb) as Hb'.
  exact (proj1 (split_valid _ _ Hs Hb' (boundary_le _ _ Hb'))).
Qed.

(* converses: a valid piece of a valid string starts and ends on char boundaries *)
Lemma valid_skipn_boundary l i : (i <= length l)%nat -> valid (skipn i l) = true ->
  boundary l i = true.
Proof.
  intros Hi Hv. destruct i as [|i]; [reflexivity|].
  destruct (Nat.eq_dec (S i) (length l)) as [->|Hne]; [apply boundary_len|].
  destruct (nth_error l (S i)) as [x|] eqn:E; [|apply nth_error_None in E; lia].
  rewrite (boundary_inside _ _ _ E) by lia.
  pose proof (nth_error_skipn l (S i) 0) as E2. rewrite Nat.add_0_r, E in E2.
  destruct (skipn (S i) l) as [|y r]; [discriminate|]. cbn in E2. injection E2 as ->.
  now rewrite (valid_head_not_cont _ _ Hv).
Qed.

Lemma wf_head_boundary t : wf t -> match t with [] => True | b' :: _ => cont b' = false end.
Proof. destruct t; [trivial|apply wf_head_not_cont]. Qed.

Lemma wf_firstn_boundary l : wf l -> forall i, (i <= length l)%nat -> wf (firstn i l) ->
  boundary l i = true.
Proof.
  induction 1 as [|b0 t H0 Ht IH|b0 b1 t H0 H1 Ht IH|b0 b1 b2 t H0 H1 H2 Ht IH
                 |b0 b1 b2 b3 t H0 H1 H2 H3 Ht IH]; intros i Hi Hf.
  - destruct i; [reflexivity|cbn in Hi; lia].
  - destruct i as [|i]; [reflexivity|]. cbn [firstn length] in *.
    apply boundary_cons_rev; [|intros _; now apply wf_head_boundary].
    apply IH; [lia|]. inversion Hf; subst; try assumption;
      repeat match goal with H : inr _ _ _ = true |- _ => apply inr_true in H end; lia.
  - destruct i as [|[|i]]; [reflexivity| |]; cbn [firstn length] in *.
    + exfalso. inversion Hf; subst. apply inr_true in H0. apply inr_true in H3. lia.
    + do 2 (apply boundary_cons_rev; [|intros; try discriminate; now apply wf_head_boundary]).
      apply IH; [lia|]. inversion Hf; subst; try assumption;
        repeat match goal with H : inr _ _ _ = true |- _ => apply inr_true in H end; lia.
  - destruct i as [|[|[|i]]]; [reflexivity| | |]; cbn [firstn length] in *.
    + exfalso. inversion Hf; subst. apply inr_true in H0. apply inr_true in H4. lia.
    + exfalso. inversion Hf; subst;
        repeat match goal with H : inr _ _ _ = true |- _ => apply inr_true in H end; lia.
    + do 3 (apply boundary_cons_rev; [|intros; try discriminate; now apply wf_head_boundary]).
      apply IH; [lia|]. inversion Hf; subst; try assumption;
        repeat match goal with H : inr _ _ _ = true |- _ => apply inr_true in H end; lia.
  - destruct i as [|[|[|[|i]]]]; [reflexivity| | | |]; cbn [firstn length] in *.
    + exfalso. inversion Hf; subst. apply inr_true in H0. apply inr_true in H5. lia.
    + exfalso. inversion Hf; subst;
        repeat match goal with H : inr _ _ _ = true |- _ => apply inr_true in H end; lia.
    + exfalso. inversion Hf; subst;
        repeat match goal with H : inr _ _ _ = true |- _ => apply inr_true in H end; lia.
    + do 4 (apply boundary_cons_rev; [|intros; try discriminate; now apply wf_head_boundary]).
      apply IH; [lia|]. inversion Hf; subst; try assumption;
        repeat match goal with H : inr _ _ _ = true |- _ => apply inr_true in H end; lia.
Qed.

Theorem valid_firstn_boundary l i : valid l = true -> (i <= length l)%nat ->
  valid (firstn i l) = true -> boundary l i = true.
Proof. rewrite !valid_wf. intros H Hi Hf. now apply wf_firstn_boundary. Qed.

(* every non-empty valid sub-range of a valid string is a slice between two boundaries, so
   every `&str` that points into a ByteString's buffer is `&s[a..b]` for boundaries a, b *)
Theorem valid_slice_boundaries l a n : valid l = true -> (a + n <= length l)%nat -> (0 < n)%nat ->
  valid (firstn n (skipn a l)) = true ->
  boundary l a = true /\ boundary l (a + n) = true.
Proof.
  intros Hv Hle Hn Hs.
  assert (boundary l a = true) as Ha.
  { destruct a as [|a]; [reflexivity|].
    destruct (nth_error l (S a)) as [x|] eqn:E; [|apply nth_error_None in E; lia].
    rewrite (boundary_inside _ _ _ E) by lia.
    pose proof (nth_error_skipn l (S a) 0) as E2. rewrite Nat.add_0_r, E in E2.
    destruct (skipn (S a) l) as [|y r]; [discriminate|]. cbn in E2. injection E2 as ->.
    destruct n as [|n]; [lia|]. cbn [firstn] in Hs.
    now rewrite (valid_head_not_cont _ _ Hs). }
  split; [exact Ha|].
  destruct (split_valid l a Hv Ha (boundary_le _ _ Ha)) as [_ Hsk].
  assert (boundary (skipn a l) n = true) as Hb.
  { apply valid_firstn_boundary; [exact Hsk|rewrite skipn_length; lia|exact Hs]. }
  destruct (Nat.eq_dec (a + n) (length l)) as [->|Hne]; [apply boundary_len|].
  destruct (nth_error l (a + n)) as [x|] eqn:E; [|apply nth_error_None in E; lia].
  rewrite (boundary_inside _ _ _ E) by lia.
  rewrite (boundary_inside (skipn a l) n x) in Hb; [exact Hb| |lia].
  now rewrite nth_error_skipn.
Qed.

(* ------------------------------------------------------------------ 5. scalar values *)
Local Ltac dlia := Z.div_mod_to_equations; lia.

Lemma scalar_true c : scalar c = true <-> 0 <= c <= 55295 \/ 57344 <= c <= 1114111.
Proof. unfold scalar. rewrite orb_true_iff, !inr_true. tauto. Qed.

(* the encoding of a scalar value is one well-formed sequence *)
Lemma encode_scalar_wf c : scalar c = true -> wf (encode_scalar c).
Proof.
  intros Hs. apply scalar_true in Hs. unfold encode_scalar.
  destruct (Z.ltb_spec c 128); [apply wf_1; [apply inr_true; lia|constructor]|].
  destruct (Z.ltb_spec c 2048).
  { apply wf_2; [apply inr_true; dlia|apply cont_true; dlia|constructor]. }
  destruct (Z.ltb_spec c 65536).
  { apply wf_3; [apply inr_true; dlia| |apply cont_true; dlia|constructor].
    unfold snd3. destruct (Z.eqb_spec (224 + c / 4096) 224); [apply inr_true; dlia|].
    destruct (Z.eqb_spec (224 + c / 4096) 237); [apply inr_true; dlia|apply cont_true; dlia]. }
  apply wf_4; [apply inr_true; dlia| |apply cont_true; dlia|apply cont_true; dlia|constructor].
  unfold snd4. destruct (Z.eqb_spec (240 + c / 262144) 240); [apply inr_true; dlia|].
  destruct (Z.eqb_spec (240 + c / 262144) 244); [apply inr_true; dlia|apply cont_true; dlia].
Qed.

Lemma encode_scalar_valid c : scalar c = true -> valid (encode_scalar c) = true.
Proof. intros H. apply valid_wf. now apply encode_scalar_wf. Qed.

(* decoding: each well-formed sequence is the encoding of a scalar value *)
Lemma dec1 b0 : inr 0 127 b0 = true -> scalar b0 = true /\ encode_scalar b0 = [b0].
Proof.
  intros H0. apply inr_true in H0. split; [apply scalar_true; lia|].
  unfold encode_scalar. destruct (Z.ltb_spec b0 128); [reflexivity|lia].
Qed.

Lemma dec2 b0 b1 : inr 194 223 b0 = true -> cont b1 = true ->
  let c := (b0 - 192) * 64 + (b1 - 128) in
  scalar c = true /\ encode_scalar c = [b0; b1].
Proof.
  intros H0 H1 c. apply inr_true in H0. apply cont_true in H1.
  assert (128 <= c < 2048) as Hc by (subst c; lia).
  split; [apply scalar_true; lia|].
  unfold encode_scalar. destruct (Z.ltb_spec c 128); [lia|]. destruct (Z.ltb_spec c 2048); [|lia].
  assert (c / 64 = b0 - 192) as -> by (subst c; dlia).
  assert (c mod 64 = b1 - 128) as -> by (subst c; dlia).
  f_equal; [lia|f_equal; lia].
Qed.

Lemma dec3 b0 b1 b2 : inr 224 239 b0 = true -> snd3 b0 b1 = true -> cont b2 = true ->
  let c := (b0 - 224) * 4096 + (b1 - 128) * 64 + (b2 - 128) in
  scalar c = true /\ encode_scalar c = [b0; b1; b2].
Proof.
  intros H0 H1 H2 c. pose proof (snd3_cont _ _ H1) as H1c.
  apply inr_true in H0. apply cont_true in H1c. apply cont_true in H2.
  assert (2048 <= c < 65536 /\ (c <= 55295 \/ 57344 <= c)) as Hc.
  { unfold snd3 in H1. destruct (Z.eqb_spec b0 224); [apply inr_true in H1; subst c; lia|].
    destruct (Z.eqb_spec b0 237); [apply inr_true in H1; subst c; lia|subst c; lia]. }
  split; [apply scalar_true; lia|].
  unfold encode_scalar. destruct (Z.ltb_spec c 128); [lia|]. destruct (Z.ltb_spec c 2048); [lia|].
  destruct (Z.ltb_spec c 65536); [|lia].
  assert (c / 4096 = b0 - 224) as -> by (subst c; dlia).
  assert ((c / 64) mod 64 = b1 - 128) as -> by (subst c; dlia).
  assert (c mod 64 = b2 - 128) as -> by (subst c; dlia).
  repeat (f_equal; try lia).
Qed.

Lemma dec4 b0 b1 b2 b3 : inr 240 244 b0 = true -> snd4 b0 b1 = true -> cont b2 = true ->
  cont b3 = true ->
  let c := (b0 - 240) * 262144 + (b1 - 128) * 4096 + (b2 - 128) * 64 + (b3 - 128) in
  scalar c = true /\ encode_scalar c = [b0; b1; b2; b3].
Proof.
  intros H0 H1 H2 H3 c. pose proof (snd4_cont _ _ H1) as H1c.
  apply inr_true in H0. apply cont_true in H1c. apply cont_true in H2. apply cont_true in H3.
  assert (65536 <= c <= 1114111) as Hc.
  { unfold snd4 in H1. destruct (Z.eqb_spec b0 240); [apply inr_true in H1; subst c; lia|].
    destruct (Z.eqb_spec b0 244); [apply inr_true in H1; subst c; lia|subst c; lia]. }
  split; [apply scalar_true; lia|].
  unfold encode_scalar. destruct (Z.ltb_spec c 128); [lia|]. destruct (Z.ltb_spec c 2048); [lia|].
  destruct (Z.ltb_spec c 65536); [lia|].
  assert (c / 262144 = b0 - 240) as -> by (subst c; dlia).
  assert ((c / 4096) mod 64 = b1 - 128) as -> by (subst c; dlia).
  assert ((c / 64) mod 64 = b2 - 128) as -> by (subst c; dlia).
  assert (c mod 64 = b3 - 128) as -> by (subst c; dlia).
  repeat (f_equal; try lia).
Qed.

Lemma wf_scalars l : wf l ->
  exists cs, Forall (fun c => scalar c = true) cs /\ l = encode_scalars cs.
Proof.
  induction 1 as [|b0 t H0 _ [cs [Hcs ->]]|b0 b1 t H0 H1 _ [cs [Hcs ->]]
                 |b0 b1 b2 t H0 H1 H2 _ [cs [Hcs ->]]|b0 b1 b2 b3 t H0 H1 H2 H3 _ [cs [Hcs ->]]].
  - exists []. split; [constructor|reflexivity].
  - destruct (dec1 b0 H0) as [Hs He]. exists (b0 :: cs). split; [now constructor|].
    unfold encode_scalars. cbn [map concat]. now rewrite He.
  - destruct (dec2 b0 b1 H0 H1) as [Hs He]. eexists (_ :: cs). split; [constructor; eassumption|].
    unfold encode_scalars. cbn [map concat]. now rewrite He.
  - destruct (dec3 b0 b1 b2 H0 H1 H2) as [Hs He]. eexists (_ :: cs).
    split; [constructor; eassumption|].
    unfold encode_scalars. cbn [map concat]. now rewrite He.
  - destruct (dec4 b0 b1 b2 b3 H0 H1 H2 H3) as [Hs He]. eexists (_ :: cs).
    split; [constructor; eassumption|].
    unfold encode_scalars. cbn [map concat]. now rewrite He.
Qed.

Lemma scalars_wf cs : Forall (fun c => scalar c = true) cs -> wf (encode_scalars cs).
Proof.
  induction 1 as [|c cs Hc _ IH]; [constructor|].
  unfold encode_scalars. cbn [map concat]. apply wf_app; [now apply encode_scalar_wf|exact IH].
Qed.

(* THE CHARACTERISATION: the DFA accepts exactly the concatenations of encodings of Unicode
   scalar values (surrogates excluded, nothing above 10FFFF, shortest form only) *)
Theorem valid_iff_scalars l :
  valid l = true <-> exists cs, Forall (fun c => scalar c = true) cs /\ l = encode_scalars cs.
Proof.
  rewrite valid_wf. split; [apply wf_scalars|]. intros [cs [Hcs ->]]. now apply scalars_wf.
Qed.
