"""C15 — LinesCodec frames lines exactly."""
import itertools
from common import Stream, shrink_hex, shrink_tokens

META = {
    "id": "C15",
    "driver": "codec",
    "harness": "h_codec",
    "coq_targets": ["Extract/XCodec.vo"],
    "level": "proof",
    "design_ref": "§5 C15",
    "technique": "Coq proof (structural induction, refinement to a reference splitter, round-trip law) + extracted-model vs real LinesCodec differential run",
    "level_text": "Theorems C15_spec/C15_eof/C15_eof_all/C15_run/C15_roundtrip/C15_invalid_*/C15_encode/C15_ref_split hold for ALL byte strings "
                  "(no length bound) on a Gallina model of lines.rs; the model is tied to the code by running the extracted model and the "
                  "real LinesCodec on every byte string of length <= 7 over {a,CR,LF,C3,A9,FF} (exhaustive) plus random longer strings and "
                  "encode/decode round trips; any difference in decoded items is a failing input.",
    "level_note": "Trusted: Coq kernel, extraction (ExtrOcamlBasic), OCaml driver, Rust harness; UTF-8 validity is modelled as the "
                  "Unicode Table 3-7 DFA (validated against String::from_utf8 by the same run); BytesMut is modelled as a byte list.",
    "rule": "stream c15: all byte strings of length <= L over the 6-letter alphabet {61,0d,0a,c3,a9,ff} (L=7 exhaustive) + seeded random "
            "strings of length 8..64 over a wider alphabet; non-trivial = contains LF or is non-empty at EOF. "
            "stream c15enc: sequences of <= 3 valid UTF-8 strings (exhaustive over strings of length <= 3 from the alphabet that are valid) "
            "+ random; non-trivial = at least one string.",
    "trusted_base": ["core::str::from_utf8 == Table 3-7 DFA (Base/Utf8.v valid) — validated by this run",
                     "bytes::BytesMut split_to/advance/truncate modelled as list operations"],
    "assumptions": ["Decoder::decode is called repeatedly on one buffer as Framed does; buffer capacity/reallocation is not modelled"],
}

ALPHA = ["61", "0d", "0a", "c3", "a9", "ff"]


def is_valid_utf8(h):
    try:
        bytes.fromhex(h).decode("utf-8")
        return True
    except UnicodeDecodeError:
        return False


def items_part(trace):
    # "items|eofitems|residue" -> the two item lists (what the property fixes); residue excluded
    p = trace.split("|")
    return p[:2] if len(p) == 3 else [trace]


def monitor(case, impl, model):
    return items_part(impl) == items_part(model)


def to_coq(case, model):
    def zl(h):
        return "[" + "; ".join(str(int(h[i:i + 2], 16)) for i in range(0, len(h), 2)) + "]"

    def its(s):
        if s == "":
            return "[]"
        out = []
        for it in s.split(","):
            out.append("IErr" if it == "E" else "IOk " + zl(it[2:]))
        return "[" + "; ".join(out) + "]"
    p = model.split("|")
    if len(p) != 3:
        return None
    return ("run_lines %s" % zl(case), "Some (%s, %s, %s)" % (its(p[0]), its(p[1]), zl(p[2])))


def streams(ctx):
    L = 7
    dec = ["".join(t) for n in range(0, L + 1) for t in itertools.product(ALPHA, repeat=n)]
    wide = ALPHA + ["0a", "0d", "41", "e2", "82", "ac", "f0", "9f", "98", "80", "c0", "ed", "a0", "00", "7f"]
    nrand = 20000 if ctx.tier == "quick" else 400000
    rnd = []
    for _ in range(nrand):
        n = ctx.rng.randint(8, 64)
        rnd.append("".join(ctx.rng.choice(wide) for _ in range(n)))
    s1 = Stream("c15", "c15", dec + rnd, monitor=monitor,
                nontrivial=lambda c, m: ("0a" in [c[i:i + 2] for i in range(0, len(c), 2)]) or m.split("|")[1:2] != [""],
                shrink=shrink_hex, to_coq=to_coq, coq_imports="From AN Require Import Model.Lines.",
                exhaustive=False,
                describe="exhaustive: %d strings of length <= %d over 6 letters; random: %d strings of length 8..64" % (len(dec), L, nrand))
    # round trip: strings must be valid UTF-8 (they are Rust Strings)
    strs = [s for s in ("".join(t) for n in range(0, 4) for t in itertools.product(ALPHA, repeat=n)) if is_valid_utf8(s)]
    seqs = [",".join(t) for n in range(1, 3) for t in itertools.product(strs, repeat=n)]
    seqs.append("")
    n3 = 3000 if ctx.tier == "quick" else 200000
    for _ in range(n3):
        k = ctx.rng.randint(1, 3)
        seqs.append(",".join(ctx.rng.choice(strs) for _ in range(k)))
    s2 = Stream("c15enc", "c15enc", seqs, monitor=lambda c, i, m: i.split("|")[:2] == m.split("|")[:2],
                nontrivial=lambda c, m: c != "", shrink=shrink_tokens(","),
                describe="encode then decode: all sequences of <= 2 and %d random sequences of <= 3 valid strings of length <= 3 (%d strings)" % (n3, len(strs)))
    # decode_eof alone, repeatedly, on buffers that still hold complete lines (Theorem C15_eof_all)
    L3 = 6
    eofs = ["".join(t) for n in range(0, L3 + 1) for t in itertools.product(ALPHA, repeat=n)] + rnd[:nrand // 4]
    s3 = Stream("c15eof", "c15eof", eofs, monitor=lambda c, i, m: i.split("|")[:1] == m.split("|")[:1],
                nontrivial=lambda c, m: "0a" in [c[i:i + 2] for i in range(0, len(c), 2)], shrink=shrink_hex,
                describe="decode_eof only, until None: exhaustive over %d strings of length <= %d, and %d random strings"
                         % (len(eofs) - nrand // 4, L3, nrand // 4))
    return [s1, s2, s3]
