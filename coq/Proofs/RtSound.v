(* Proofs/RtSound.v — soundness of the acceptance predicate Rt_accepts (Model/Rt.v) with respect to the
   transition system: every log the model can produce, under every schedule, is accepted.
   The proof is a simulation: the monitor state after the executed operations is related to the model
   state by MRel; internal moves keep the relation, an executed operation advances the monitor. *)
From AN Require Import Model.Rt Proofs.RtFacts.

Fixpoint first_exit_q (q : list syscmd) : option Z :=
  match q with
  | [] => None
  | Exit c :: _ => Some c
  | _ :: t => first_exit_q t
  end.
(* the code that wins: the one already sent through the one-shot, else the first Exit still queued *)
Definition first_exit (s : st) : option Z :=
  match exitc s with Some c => Some c | None => first_exit_q (sysq s) end.

Definition started_in (s : st) (i : nat) : Prop :=
  exists k a, nth_error (arbs s) k = Some a /\ In i (started a).
Definition allowed (m : mon) (s : st) (c : Z) : Prop :=
  m_direct m = Some c \/ exists i, In (i, c) (m_cands m) /\ started_in s i.

Record ARel (iss : bool) (m : mon) (a : arb) (ma : marb) : Prop := {
  r_gone : m_gone ma = true -> ph a = Dropped;
  r_nocut : eff_cut m ma = false -> m_sent ma = execs (hist a);
  r_cut : eff_cut m ma = true ->
          has_stop (hist a) = true /\ is_prefix (execs (pre_stop (hist a))) (m_sent ma) = true;
  r_noself : m_lstop ma = false -> forall t, In (Execute t) (hist a) -> tkind t <> KStopSelf;
  r_nostop : m_lstop ma = false -> iss = false -> ph a = Running /\ has_stop (hist a) = false;
  r_cov : m_cov ma = true -> a_pre a = true;
  r_must : m_must ma = true -> stopping a;
  r_selfs : forall i, In i (m_selfs ma) -> exists t, In (Execute t) (hist a) /\ tid t = i /\ tkind t = KStopSelf
}.

Record MRel (s : st) (m : mon) : Prop := {
  M_len : length (m_arbs m) = length (arbs s);
  M_arb : forall k a ma, nth_error (arbs s) k = Some a -> nth_error (m_arbs m) k = Some ma ->
          ARel (issued s) m a ma;
  M_src : m_src m = false ->
          issued s = false /\
          (forall k a t c, nth_error (arbs s) k = Some a -> In (Execute t) (hist a) -> tkind t <> KStopSys c);
  M_direct : m_direct m <> None ->
             issued s = true /\ (alive s = false \/ exitc s <> None \/ has_exit (sysq s) = true);
  M_cands : forall k a t c, nth_error (arbs s) k = Some a -> In (Execute t) (hist a) -> tkind t = KStopSys c ->
            In (tid t, c) (m_cands m) \/ m_direct m <> None;
  M_code : forall c, first_exit s = Some c -> allowed m s c;
  M_ret : m_ret m = true -> alive s = false;
  M_hangs : m_hangs m = [];
  M_waited : forall k i, In (k, i) (m_waited m) -> exists a, nth_error (arbs s) k = Some a /\ In i (started a);
  M_ok : m_ok m = true
}.

(* how an arbiter may change in a move that is not a send of the coordinator *)
Record lrel (a a' : arb) : Prop := {
  lr_hist : exists ext, hist a' = hist a ++ ext /\ (forall t, ~ In (Execute t) ext);
  lr_alog : forall i, In i (started a) -> In i (started a');
  lr_pre : a_pre a' = a_pre a;
  lr_drop : ph a = Dropped -> ph a' = Dropped;
  lr_stopping : stopping a -> stopping a'
}.

Lemma lrel_refl : forall a, lrel a a.
Proof.
  intros. constructor; auto. exists []. rewrite app_nil_r. split; auto.
Qed.

Lemma execs_noexec : forall ext, (forall t, ~ In (Execute t) ext) -> execs ext = [].
Proof.
  induction ext as [|[|x] l IH]; intros H; cbn; auto.
  - apply IH. intros t Ht. apply (H t). right. auto.
  - exfalso. apply (H x). left. auto.
Qed.

Lemma ARel_lrel : forall iss iss' m a a' ma,
  ARel iss m a ma -> lrel a a' ->
  (m_lstop ma = false -> iss' = false -> ph a' = Running /\ has_stop (hist a') = false) ->
  ARel iss' m a' ma.
Proof.
  intros iss iss' m a a' ma [R1 R2 R3 R4 R5 R6 R7 R8] [(ext & EH & EX) L2 L3 L4 L5] NS.
  constructor; auto.
  - intros H. rewrite (R2 H), EH, execs_app, (execs_noexec _ EX). now rewrite app_nil_r.
  - intros H. destruct (R3 H) as [A B]. rewrite EH. rewrite has_stop_app, A. split; auto.
    now rewrite pre_stop_app_stop.
  - intros H t Ht. rewrite EH in Ht. apply in_app_or in Ht as [Ht|Ht]; [eauto | exfalso; eapply EX; eauto].
  - intros H. rewrite L3. auto.
  - intros i Hi. destruct (R8 i Hi) as (t & T1 & T2 & T3). exists t. rewrite EH. split; auto. apply in_or_app. auto.
Qed.

(* local moves *)
Lemma lrel_push_stop : forall a, lrel a (push Stop a).
Proof.
  intros. constructor.
  - unfold push. destruct (is_dropped (ph a)); cbn.
    + exists []. rewrite app_nil_r. split; auto.
    + exists [Stop]. split; auto. intros t [H|[]]. discriminate.
  - unfold started. now rewrite alog_push.
  - apply pre_push.
  - intros. now rewrite ph_push.
  - apply stopping_push.
Qed.

Lemma lrel_trans : forall a b c, lrel a b -> lrel b c -> lrel a c.
Proof.
  intros a b c [(e1 & H1 & X1) A2 A3 A4 A5] [(e2 & H2 & X2) B2 B3 B4 B5]. constructor; auto; try congruence.
  exists (e1 ++ e2). rewrite H2, H1, app_assoc. split; auto.
  intros t Ht. apply in_app_or in Ht as [Ht|Ht]; [eapply X1 | eapply X2]; eauto.
Qed.

Lemma lrel_iter : forall n a, lrel a (Nat.iter n (push Stop) a).
Proof.
  induction n as [|n IH]; intros a; [apply lrel_refl|]. cbn [Nat.iter nat_rect].
  eapply lrel_trans; [apply IH | apply lrel_push_stop].
Qed.

Lemma lrel_runner : forall a, lrel a (runner a).
Proof.
  intros. constructor.
  - exists []. rewrite app_nil_r. split; auto. unfold runner. destruct (ph a); auto. destruct (chan a) as [|[|t] c]; auto.
  - unfold runner, started. destruct (ph a); auto. destruct (chan a) as [|[|t] c]; auto.
  - unfold runner. destruct (ph a); auto. destruct (chan a) as [|[|t] c]; auto.
  - unfold runner. intros H. rewrite H. auto.
  - apply stopping_runner.
Qed.

Lemma lrel_start : forall a, lrel a (start_task a).
Proof.
  intros. destruct (start_fields a) as (F1 & F2 & F3 & F4). constructor; auto.
  - exists []. rewrite app_nil_r. split; auto. unfold start_task. destruct (ph a); auto. destruct (lq a); auto.
  - unfold start_task, started. destruct (ph a); auto. destruct (lq a); auto. cbn. intros i Hi.
    rewrite tids_app. apply in_or_app. auto.
  - congruence.
  - apply stopping_start.
Qed.

Lemma lrel_drop : forall a, lrel a (drop_arb a).
Proof.
  intros. constructor; auto.
  - exists []. rewrite app_nil_r. split; auto.
  - intros. apply stopping_drop.
Qed.

(* ---------- first_exit ---------- *)
Lemma first_exit_q_app : forall q c,
  first_exit_q (q ++ [c]) = match first_exit_q q with
                            | Some x => Some x
                            | None => match c with Exit e => Some e | _ => None end
                            end.
Proof. induction q as [|[e|r|d] q IH]; intros c; cbn; auto. Qed.

Lemma has_exit_first : forall q, has_exit q = true -> first_exit_q q <> None.
Proof. induction q as [|[e|r|d] q IH]; cbn; intros H; try discriminate; auto. Qed.

Lemma first_none_has_exit : forall q, first_exit_q q = None -> has_exit q = false.
Proof. induction q as [|[e|r|d] q IH]; cbn; intros H; try discriminate; auto. Qed.

Lemma allowed_mono : forall m s s' c,
  (forall i, started_in s i -> started_in s' i) -> allowed m s c -> allowed m s' c.
Proof. intros m s s' c H [A|(i & A & B)]; [left; auto | right; eauto]. Qed.

(* ---------- frame for moves that do not execute a script operation ---------- *)
Lemma MRel_frame : forall s s' m,
  GInv s -> MRel s m ->
  length (arbs s') = length (arbs s) ->
  (forall k a, nth_error (arbs s) k = Some a ->
     exists a', nth_error (arbs s') k = Some a' /\ lrel a a' /\
       (forall ma, nth_error (m_arbs m) k = Some ma -> m_lstop ma = false -> issued s' = false ->
                   ph a' = Running /\ has_stop (hist a') = false)) ->
  (issued s = true -> issued s' = true) ->
  (m_src m = false -> issued s' = false) ->
  (alive s = false -> alive s' = false) ->
  (m_direct m <> None -> alive s' = false \/ exitc s' <> None \/ has_exit (sysq s') = true) ->
  (forall c, first_exit s' = Some c -> first_exit s = Some c \/ allowed m s' c) ->
  MRel s' m.
Proof.
  intros s s' m G [M1 M2 M3 M4 M5 M6 M7 M8 M9 M10] EL HA HI HS HL HD HF.
  assert (forall k a', nth_error (arbs s') k = Some a' ->
            exists a, nth_error (arbs s) k = Some a /\ lrel a a' /\
              (forall ma, nth_error (m_arbs m) k = Some ma -> m_lstop ma = false -> issued s' = false ->
                          ph a' = Running /\ has_stop (hist a') = false)) as HB.
  { intros k a' H. destruct (nth_error (arbs s) k) as [a|] eqn:E.
    - destruct (HA k a E) as (a2 & E2 & R). rewrite H in E2. inversion E2. subst a2. eauto.
    - apply nth_error_None in E. assert (nth_error (arbs s') k <> None) as N by congruence.
      apply nth_error_Some in N. lia. }
  assert (forall i, started_in s i -> started_in s' i) as HSt.
  { intros i (k & a & E & I). destruct (HA k a E) as (a' & E' & R & _). exists k, a'. split; auto. now apply (lr_alog _ _ R). }
  constructor; auto.
  - congruence.
  - intros k a' ma H Hm. destruct (HB k a' H) as (a & E & R & NS). eapply ARel_lrel; eauto.
  - intros Hs. destruct (M3 Hs) as [A B]. split; auto. intros k a' t c H Ht.
    destruct (HB k a' H) as (a & E & [(ext & EH & EX) _ _ _ _] & _). rewrite EH in Ht.
    apply in_app_or in Ht as [Ht|Ht]; [eapply B; eauto | exfalso; eapply EX; eauto].
  - intros Hd. destruct (M4 Hd) as [A B]. split; auto.
  - intros k a' t c H Ht K. destruct (HB k a' H) as (a & E & [(ext & EH & EX) _ _ _ _] & _). rewrite EH in Ht.
    apply in_app_or in Ht as [Ht|Ht]; [eapply M5; eauto | exfalso; eapply EX; eauto].
  - intros c Hc. destruct (HF c Hc) as [A|A]; auto. eapply allowed_mono; eauto.
  - intros k i Hw. destruct (M9 k i Hw) as (a & E & I). destruct (HA k a E) as (a' & E' & R & _).
    exists a'. split; auto. now apply (lr_alog _ _ R).
Qed.

(* arbiter k moves by f, the others stay *)
Lemma upd_lrel : forall (l : list arb) k f,
  (forall a, nth_error l k = Some a -> lrel a (f a)) ->
  forall j a, nth_error l j = Some a -> exists a', nth_error (upd k f l) j = Some a' /\ lrel a a' /\ (j <> k -> a' = a) /\ (j = k -> a' = f a).
Proof.
  intros l k f H j a E. rewrite nth_upd. destruct (Nat.eqb_spec j k) as [->|N].
  - rewrite E. cbn. exists (f a). split; [reflexivity|]. split; [auto|]. split; [intros X; congruence | auto].
  - exists a. rewrite E. split; [reflexivity|]. split; [apply lrel_refl|]. split; [auto | intros X; congruence].
Qed.

Lemma MRel_frame_arbs : forall s l' m,
  GInv s -> MRel s m -> length l' = length (arbs s) ->
  (forall k a, nth_error (arbs s) k = Some a ->
     exists a', nth_error l' k = Some a' /\ lrel a a' /\
       (forall ma, nth_error (m_arbs m) k = Some ma -> m_lstop ma = false -> issued s = false ->
                   ph a' = Running /\ has_stop (hist a') = false)) ->
  MRel (set_arbs s l') m.
Proof.
  intros s l' m G M EL HA. eapply MRel_frame; eauto; cbn; auto.
  - intros Hs. apply (M_src _ _ M Hs).
  - intros Hd. apply (M_direct _ _ M Hd).
Qed.

(* the no-stop clause for an arbiter that does not move *)
Lemma nostop_same : forall s m k a, MRel s m -> nth_error (arbs s) k = Some a ->
  forall ma, nth_error (m_arbs m) k = Some ma -> m_lstop ma = false -> issued s = false ->
  ph a = Running /\ has_stop (hist a) = false.
Proof. intros s m k a M E ma Em L I. exact (r_nostop _ _ _ _ (M_arb _ _ M k a ma E Em) L I). Qed.

Lemma chan_in_hist : forall n a c, AInv n a -> ph a = Running -> In c (chan a) -> In c (hist a).
Proof.
  intros n a c I P H. destruct (ai_run _ _ I P) as (dn & E & _). rewrite E. apply in_or_app. auto.
Qed.

Lemma has_stop_false_in : forall l, has_stop l = false -> ~ In Stop l.
Proof.
  induction l as [|[|x] l IH]; cbn; intros H; auto; try discriminate. intros [X|X]; [discriminate | now apply IH].
Qed.

Lemma MRel_runner : forall s m k, GInv s -> MRel s m -> MRel (step s (LRunner k)) m.
Proof.
  intros s m k G M. cbn [step]. apply MRel_frame_arbs; auto; [apply upd_length|].
  intros j a E. destruct (upd_lrel (arbs s) k runner (fun a _ => lrel_runner a) j a E) as (a' & E' & R & N1 & N2).
  exists a'. split; auto. split; auto. intros ma Em L I.
  destruct (nostop_same s m j a M E ma Em L I) as [P H].
  destruct (Nat.eq_dec j k) as [->|N]; [|rewrite (N1 N); auto].
  rewrite (N2 eq_refl). unfold runner. rewrite P.
  destruct (chan a) as [|[|t] c] eqn:C; auto.
  exfalso. apply (has_stop_false_in _ H). destruct (g_arb _ G k a E) as (I1 & _).
  eapply chan_in_hist; eauto. rewrite C. left. auto.
Qed.

Lemma MRel_task : forall s m k, GInv s -> MRel s m -> MRel (step s (LTask k)) m.
Proof.
  intros s m k G M. cbn [step]. unfold task_step.
  destruct (nth_error (arbs s) k) as [a0|] eqn:E0; auto.
  destruct (ph a0) eqn:P0; auto. destruct (lq a0) as [|t q] eqn:L0; auto.
  destruct (g_arb _ G k a0 E0) as (I0 & _).
  assert (In (Execute t) (hist a0)) as Ht by (apply (ai_lq _ _ I0); rewrite L0; left; auto).
  assert (forall j a, nth_error (arbs s) j = Some a ->
          exists a', nth_error (upd k start_task (arbs s)) j = Some a' /\ lrel a a' /\
            (forall ma, nth_error (m_arbs m) j = Some ma -> m_lstop ma = false -> issued s = false ->
                        ph a' = Running /\ has_stop (hist a') = false)) as HP.
  { intros j a E. destruct (upd_lrel (arbs s) k start_task (fun a _ => lrel_start a) j a E) as (a' & E' & R & N1 & N2).
    exists a'. split; auto. split; auto. intros ma Em L I.
    destruct (nostop_same s m j a M E ma Em L I) as [P H].
    destruct (Nat.eq_dec j k) as [->|N]; [|rewrite (N1 N); auto].
    rewrite (N2 eq_refl). unfold start_task. rewrite P. destruct (lq a); auto. }
  destruct (tkind t) eqn:K.
  1,2,3: apply MRel_frame_arbs; auto; apply upd_length.
  - (* System::current().stop_with_code(c) *)
    eapply MRel_frame; eauto; cbn; try apply upd_length; auto.
    + intros j a E. destruct (HP j a E) as (a' & E' & R & NS). exists a'. split; auto. split; auto.
      intros ma Em L I. discriminate.
    + intros Hs. exfalso. destruct (M_src _ _ M Hs) as [_ B]. eapply B; eauto.
    + intros Hd. destruct (M_direct _ _ M Hd) as [_ [B|[B|B]]]; auto. right. right.
      unfold sys_send. destruct (alive s); auto. rewrite has_exit_app, B. auto.
    + intros c' Hc. unfold first_exit in *. cbn in Hc. destruct (exitc s) as [x|] eqn:X; auto.
      unfold sys_send in Hc. destruct (alive s) eqn:A; auto. rewrite first_exit_q_app in Hc.
      destruct (first_exit_q (sysq s)) as [y|] eqn:F; auto. inversion Hc; subst c'. right.
      destruct (M_cands _ _ M k a0 t c E0 Ht K) as [C|C].
      * right. exists (tid t). split; auto. exists k, (start_task a0). cbn. rewrite nth_upd_same, E0. split; auto.
        unfold start_task, started. rewrite P0, L0. cbn. rewrite tids_app. apply in_or_app. right. left. auto.
      * exfalso. destruct (M_direct _ _ M C) as [_ [B|[B|B]]]; try congruence.
        apply has_exit_first in B. congruence.
  - (* Arbiter::current().stop() *)
    rewrite upd_upd. apply MRel_frame_arbs; auto; [apply upd_length|].
    intros j a E.
    destruct (upd_lrel (arbs s) k (fun x => push Stop (start_task x))
                (fun a _ => lrel_trans _ _ _ (lrel_start a) (lrel_push_stop _)) j a E) as (a' & E' & R & N1 & N2).
    exists a'. split; auto. split; auto. intros ma Em L I.
    destruct (Nat.eq_dec j k) as [->|N]; [|rewrite (N1 N); eapply nostop_same; eauto].
    exfalso. rewrite E0 in E. inversion E; subst a.
    apply (r_noself _ _ _ _ (M_arb _ _ M k a0 ma E0 Em) L t Ht K).
Qed.

Lemma same_arbs_premise : forall s m, MRel s m ->
  forall k a, nth_error (arbs s) k = Some a ->
     exists a', nth_error (arbs s) k = Some a' /\ lrel a a' /\
       (forall ma, nth_error (m_arbs m) k = Some ma -> m_lstop ma = false -> issued s = false ->
                   ph a' = Running /\ has_stop (hist a') = false).
Proof.
  intros s m M k a E. exists a. split; auto. split; [apply lrel_refl|]. intros. eapply nostop_same; eauto.
Qed.

Lemma MRel_sys : forall s m, GInv s -> MRel s m -> MRel (step s LSys) m.
Proof.
  intros s m G M. cbn [step]. unfold sys_step. destruct (alive s) eqn:A; auto.
  destruct (sysq s) as [|[c|j|j] q] eqn:Q; auto.
  - (* Exit *)
    assert (issued s = true) as Is.
    { destruct (issued s) eqn:Is; auto. destruct (g_iss _ G Is) as (_ & _ & B). rewrite Q in B. discriminate. }
    eapply MRel_frame; eauto; cbn; try apply stop_all_length; auto.
    + intros k a E. rewrite stop_all_nth, E. cbn. eexists. split; [reflexivity|]. split; [apply lrel_iter|].
      intros ma Em L I. congruence.
    + intros Hs. destruct (M_src _ _ M Hs) as [B _]. congruence.
    + congruence.
    + intros _. right. left. destruct (exitc s); discriminate.
    + intros c' Hc. left. unfold first_exit in *. cbn in Hc. rewrite Q. destruct (exitc s); auto.
  - (* Register *)
    eapply MRel_frame; eauto; cbn; auto.
    + apply same_arbs_premise; auto.
    + intros Hs. apply (M_src _ _ M Hs).
    + intros Hd. destruct (M_direct _ _ M Hd) as [_ [B|[B|B]]]; auto; [congruence|]. rewrite Q in B. cbn in B. auto.
    + intros c' Hc. left. unfold first_exit in *. cbn in Hc. rewrite Q. cbn. auto.
  - (* Deregister *)
    eapply MRel_frame; eauto; cbn; auto.
    + apply same_arbs_premise; auto.
    + intros Hs. apply (M_src _ _ M Hs).
    + intros Hd. destruct (M_direct _ _ M Hd) as [_ [B|[B|B]]]; auto; [congruence|]. rewrite Q in B. cbn in B. auto.
    + intros c' Hc. left. unfold first_exit in *. cbn in Hc. rewrite Q. cbn. auto.
Qed.

Lemma MRel_sysret : forall s m, GInv s -> MRel s m -> MRel (step s LSysRet) m.
Proof.
  intros s m G M. cbn [step]. unfold sys_ret. destruct (alive s) eqn:A; auto. destruct (exitc s) as [c|] eqn:X; auto.
  eapply MRel_frame; eauto; cbn; auto.
  - apply same_arbs_premise; auto.
  - intros Hs. apply (M_src _ _ M Hs).
  - intros c' Hc. left. unfold first_exit in *. cbn in Hc. rewrite X in *. auto.
Qed.

Lemma MRel_drop : forall s m k, GInv s -> MRel s m -> MRel (step s (LDrop k)) m.
Proof.
  intros s m k G M. cbn [step]. unfold drop_step.
  destruct (nth_error (arbs s) k) as [a0|] eqn:E0; auto. destruct (ph a0) eqn:P0; auto.
  eapply MRel_frame; eauto; cbn; try apply upd_length; auto.
  - intros j a E. destruct (upd_lrel (arbs s) k drop_arb (fun a _ => lrel_drop a) j a E) as (a' & E' & R & N1 & N2).
    exists a'. split; auto. split; auto. intros ma Em L I.
    destruct (nostop_same s m j a M E ma Em L I) as [P H].
    destruct (Nat.eq_dec j k) as [->|N]; [|rewrite (N1 N); auto]. congruence.
  - intros Hs. apply (M_src _ _ M Hs).
  - intros Hd. destruct (M_direct _ _ M Hd) as [_ [B|[B|B]]]; auto. right. right.
    unfold sys_send. destruct (alive s); auto. rewrite has_exit_app, B. auto.
  - intros c' Hc. left. unfold first_exit in *. cbn in Hc. destruct (exitc s); auto.
    unfold sys_send in Hc. destruct (alive s); auto. rewrite first_exit_q_app in Hc.
    destruct (first_exit_q (sysq s)); auto; try discriminate.
Qed.

Theorem MRel_internal : forall s m l, l <> LCoord -> GInv s -> MRel s m -> MRel (step s l) m.
Proof.
  intros s m [| k | k | | | k] N G M; try congruence.
  - now apply MRel_runner.
  - now apply MRel_task.
  - now apply MRel_sys.
  - now apply MRel_sysret.
  - now apply MRel_drop.
Qed.

(* ---------- executed operations ---------- *)
Lemma ARel_mon : forall iss m m' a ma, m_ret m' = m_ret m -> ARel iss m a ma -> ARel iss m' a ma.
Proof.
  intros iss m m' a ma E [R1 R2 R3 R4 R5 R6 R7 R8].
  assert (eff_cut m' ma = eff_cut m ma) as EC by (unfold eff_cut; now rewrite E).
  constructor; auto; rewrite EC; auto.
Qed.

Lemma ARel_iss : forall iss m a ma, ARel iss m a ma -> ARel true m a ma.
Proof. intros iss m a ma [R1 R2 R3 R4 R5 R6 R7 R8]. constructor; auto. discriminate. Qed.

(* the part of the state MRel looks at *)
Definition same_view (s s' : st) : Prop :=
  arbs s' = arbs s /\ sysq s' = sysq s /\ exitc s' = exitc s /\ alive s' = alive s /\ issued s' = issued s.

Lemma MRel_view : forall s s' m, same_view s s' -> MRel s m -> MRel s' m.
Proof.
  intros s s' m (E1 & E2 & E3 & E4 & E5) [M1 M2 M3 M4 M5 M6 M7 M8 M9 M10].
  constructor; unfold first_exit, allowed, started_in in *; rewrite ?E1, ?E2, ?E3, ?E4, ?E5; auto.
Qed.

Lemma with_op_view : forall s r ops', same_view s (with_op s r ops' (arbs s) (sysq s) (issued s)).
Proof. intros. repeat split. Qed.

(* a monitor that differs only in m_ok *)
Lemma MRel_set_ok : forall s m, MRel s m -> MRel s (set_ok m true).
Proof.
  intros s m [M1 M2 M3 M4 M5 M6 M7 M8 M9 M10]. constructor; cbn; auto.
  - intros k a ma H1 H2. eapply ARel_mon; [|eauto]. reflexivity.
  - now rewrite M10.
Qed.

Lemma nth_both : forall s m k, MRel s m ->
  (nth_error (arbs s) k = None /\ nth_error (m_arbs m) k = None) \/
  (exists a ma, nth_error (arbs s) k = Some a /\ nth_error (m_arbs m) k = Some ma).
Proof.
  intros s m k M. pose proof (M_len _ _ M) as L.
  destruct (nth_error (arbs s) k) as [a|] eqn:E1; destruct (nth_error (m_arbs m) k) as [ma|] eqn:E2; eauto.
  - apply nth_error_None in E2. assert (nth_error (arbs s) k <> None) as N by congruence. apply nth_error_Some in N. lia.
  - apply nth_error_None in E1. assert (nth_error (m_arbs m) k <> None) as N by congruence. apply nth_error_Some in N. lia.
Qed.

Lemma stopping_has_stop : forall n a, AInv n a -> stopping a -> has_stop (hist a) = true.
Proof.
  intros n a I [H|H].
  - apply (ai_end _ _ I H).
  - destruct (ph a) eqn:P; try (apply (ai_end _ _ I); congruence).
    destruct (ai_run _ _ I P) as (dn & E & _). rewrite E, has_stop_app, H. apply orb_true_r.
Qed.

Lemma started_prefix_pre_stop : forall n a, AInv n a -> is_prefix (started a) (execs (pre_stop (hist a))) = true.
Proof.
  intros n a I. destruct (ph a) eqn:P; try (apply (ai_end _ _ I); congruence).
  destruct (ai_run _ _ I P) as (dn & E & E2 & E3). rewrite E, pre_stop_app_nostop by auto.
  rewrite execs_app, E3, <- app_assoc. apply is_prefix_app.
Qed.

(* at quiescence a live arbiter has started everything it was sent and is not about to stop *)
Lemma quiescent_arb : forall s k a, quiescent s = true -> nth_error (arbs s) k = Some a -> ph a <> Dropped ->
  ph a = Running /\ chan a = [] /\ lq a = [].
Proof.
  intros s k a Q E P. unfold quiescent in Q. apply andb_true_iff in Q as [Q _].
  rewrite forallb_forall in Q. specialize (Q a (nth_error_In _ _ E)). unfold arb_idle in Q.
  destruct (ph a); try congruence; try discriminate. destruct (chan a); [|discriminate]. destruct (lq a); [auto|discriminate].
Qed.

Lemma quiescent_not_stopping : forall s k a, quiescent s = true -> nth_error (arbs s) k = Some a -> ph a <> Dropped ->
  ~ stopping a.
Proof.
  intros s k a Q E P [H|H]; destruct (quiescent_arb s k a Q E P) as (A & B & C); [congruence|].
  rewrite B in H. discriminate.
Qed.

Lemma quiescent_sys : forall s, quiescent s = true -> alive s = true -> sysq s = [] /\ exitc s = None.
Proof.
  intros s Q A. unfold quiescent in Q. apply andb_true_iff in Q as [_ Q]. unfold sys_idle in Q. rewrite A in Q. cbn in Q.
  destruct (sysq s); [|discriminate]. destruct (exitc s); [discriminate|auto].
Qed.

Lemma started_in_app : forall s s' x, arbs s' = arbs s ++ [x] -> forall i, started_in s i -> started_in s' i.
Proof.
  intros s s' x E i (k & a & H & I). exists k, a. split; auto. rewrite E, nth_error_app1; auto.
  apply nth_error_Some. congruence.
Qed.

Lemma MRel_new : forall s m ops', GInv s -> MRel s m ->
  MRel (with_op s RUnit ops' (arbs s ++ [mkArb [] [] Running [] (2 + length (arbs s)) 0 (negb (issued s)) []])
               (sys_send (Register (length (arbs s))) s) (issued s))
       (mstep m (pc s) ONew RUnit).
Proof.
  intros s m ops' G M. pose proof M as [M1 M2 M3 M4 M5 M6 M7 M8 M9 M10].
  cbn [mstep is_unit]. constructor; cbn.
  - rewrite !app_length. cbn. lia.
  - intros k a ma H1 H2. apply nth_snoc in H1 as [[L1 H1]|[-> ->]].
    + apply nth_snoc in H2 as [[L2 H2]|[-> ->]]; [|lia]. eapply ARel_mon; [|eauto]. reflexivity.
    + apply nth_snoc in H2 as [[L2 H2]|[_ ->]]; [lia|].
      constructor; cbn; auto; try discriminate; try contradiction.
      * unfold eff_cut. cbn. intros H. apply andb_true_iff in H as [H1 H2]. apply negb_true_iff in H1.
        destruct (M3 H1) as [B _]. destruct (g_iss _ G B) as (C & _). specialize (M7 H2). congruence.
      * intros H. apply negb_true_iff in H. destruct (M3 H) as [B _]. now rewrite B.
  - intros Hs. destruct (M3 Hs) as [A B]. split; auto. intros k a t c H Ht.
    apply nth_snoc in H as [[L H]|[-> ->]]; [eapply B; eauto | contradiction].
  - intros Hd. destruct (M4 Hd) as [A [B|[B|B]]]; split; auto. right. right.
    unfold sys_send. destruct (alive s); auto. fold (has_exit (sysq s ++ [Register (length (arbs s))])).
    rewrite has_exit_app. unfold has_exit in *. rewrite B. auto.
  - intros k a t c H Ht K. apply nth_snoc in H as [[L H]|[-> ->]]; [eapply M5; eauto | contradiction].
  - intros c Hc. assert (first_exit s = Some c) as F.
    { unfold first_exit in *. cbn in Hc. destruct (exitc s); auto. unfold sys_send in Hc.
      destruct (alive s); auto. rewrite first_exit_q_app in Hc. destruct (first_exit_q (sysq s)); auto; discriminate. }
    destruct (M6 c F) as [A|(i & A & B)]; [left; auto | right]. exists i. split; auto.
    eapply started_in_app; [|eauto]. reflexivity.
  - auto.
  - auto.
  - intros k i Hw. destruct (M9 k i Hw) as (a & E & I). exists a. split; auto. rewrite nth_error_app1; auto.
    apply nth_error_Some. congruence.
  - now rewrite M10.
Qed.

(* arbiter k and its monitor entry change together; the system side is untouched *)
Lemma MRel_upd_k : forall s s' m m' k a ma f g,
  MRel s m ->
  nth_error (arbs s) k = Some a -> nth_error (m_arbs m) k = Some ma ->
  arbs s' = upd k f (arbs s) -> m_arbs m' = upd k g (m_arbs m) ->
  sysq s' = sysq s -> exitc s' = exitc s -> alive s' = alive s -> issued s' = issued s ->
  m_ret m' = m_ret m -> (m_src m' = false -> m_src m = false) -> m_direct m' = m_direct m ->
  (forall x, In x (m_cands m) -> In x (m_cands m')) -> m_hangs m' = [] ->
  (forall x, In x (m_waited m') -> In x (m_waited m) \/ (fst x = k /\ In (snd x) (started (f a)))) ->
  m_ok m' = true ->
  ARel (issued s) m' (f a) (g ma) ->
  (forall t c, In (Execute t) (hist (f a)) -> tkind t = KStopSys c ->
               (In (tid t, c) (m_cands m') \/ m_direct m' <> None) /\ m_src m' = true) ->
  (forall i, In i (started a) -> In i (started (f a))) ->
  MRel s' m'.
Proof.
  intros s s' m m' k a ma f g [M1 M2 M3 M4 M5 M6 M7 M8 M9 M10] Ea Em EA EM EQ EX EL EI ER ES ED EC EH EW EO RK HK HS.
  assert (forall i, started_in s i -> started_in s' i) as HSt.
  { intros i (j & b & E & I). exists j. rewrite EA, nth_upd. destruct (Nat.eqb_spec j k) as [->|N]; [|eauto].
    rewrite Ea in *. inversion E; subst b. cbn. eauto. }
  constructor; rewrite ?EQ, ?EX, ?EL, ?EI, ?ED; auto.
  - rewrite EA, EM, !upd_length. auto.
  - intros j b mb H1 H2. rewrite EA, nth_upd in H1. rewrite EM, nth_upd in H2.
    destruct (Nat.eqb_spec j k) as [->|N].
    + rewrite Ea in H1. rewrite Em in H2. cbn in *. inversion H1. inversion H2. auto.
    + eapply ARel_mon; [|eauto]. auto.
  - intros Hs. destruct (M3 (ES Hs)) as [A B]. split; auto. intros j b t c H Ht K.
    rewrite EA, nth_upd in H. destruct (Nat.eqb_spec j k) as [->|N]; [|eapply B; eauto].
    rewrite Ea in H. cbn in H. inversion H; subst b. destruct (HK t c Ht K) as [_ X]. congruence.
  - intros j b t c H Ht K. rewrite EA, nth_upd in H. destruct (Nat.eqb_spec j k) as [->|N].
    + rewrite Ea in H. cbn in H. inversion H; subst b. destruct (HK t c Ht K) as [X _]. rewrite <- ED. auto.
    + destruct (M5 j b t c H Ht K) as [X|X]; auto.
  - intros c Hc. assert (first_exit s = Some c) as F by (unfold first_exit in *; now rewrite EQ, EX in Hc).
    destruct (M6 c F) as [A|(i & A & B)]; [left; congruence | right; eauto].
  - rewrite ER. auto.
  - intros j i Hw. destruct (EW (j, i) Hw) as [W|[W1 W2]]; cbn in *.
    + destruct (M9 j i W) as (b & E & I). rewrite EA, nth_upd. destruct (Nat.eqb_spec j k) as [->|N]; [|eauto].
      rewrite Ea in *. inversion E; subst b. cbn. eauto.
    + subst j. rewrite EA, nth_upd_same, Ea. cbn. eauto.
Qed.

Lemma hist_push_live : forall c a, ph a <> Dropped -> hist (push c a) = hist a ++ [c].
Proof. intros. rewrite push_live; auto. Qed.

Lemma ARel_spawn_true : forall iss m a ma i kd, ARel iss m a ma -> ph a <> Dropped ->
  ARel iss m (push (Execute (mkTask i kd)) a) (m_spawn m i kd RTrue ma).
Proof.
  intros iss m a ma i kd [R1 R2 R3 R4 R5 R6 R7 R8] P.
  assert (eff_cut m (m_spawn m i kd RTrue ma) = eff_cut m ma) as EC by reflexivity.
  constructor; rewrite ?EC, ?ph_push, ?pre_push, ?hist_push_live by auto; cbn [m_spawn m_gone m_sent m_lstop m_cov m_must m_selfs is_true is_false andb].
  - rewrite orb_false_r. auto.
  - intros H. rewrite H. cbn. rewrite execs_app, (R2 H). reflexivity.
  - intros H. rewrite H. cbn. destruct (R3 H) as [A B]. rewrite has_stop_app, A, pre_stop_app_stop by auto. auto.
  - intros H t Ht. apply orb_false_iff in H as [H1 H2]. apply in_app_or in Ht as [Ht|[Ht|[]]]; [eauto|].
    inversion Ht. cbn. destruct kd; cbn in H2; congruence.
  - intros H I. apply orb_false_iff in H as [H1 H2]. destruct (R5 H1 I) as [A B]. split; auto.
    rewrite has_stop_app, B. reflexivity.
  - auto.
  - intros H. apply stopping_push. auto.
  - intros j Hj.
    assert (In j (m_selfs ma) \/ (j = i /\ kd = KStopSelf)) as [X|[-> ->]].
    { destruct (negb (eff_cut m ma) && is_self kd) eqn:E; auto. apply in_app_or in Hj as [Hj|[Hj|[]]]; auto.
      right. apply andb_true_iff in E as [_ E]. destruct kd; try discriminate. auto. }
    + destruct (R8 j X) as (t & T1 & T2 & T3). exists t. split; auto. apply in_or_app. auto.
    + exists (mkTask i KStopSelf). split; auto. apply in_or_app. right. left. auto.
Qed.

Lemma ARel_spawn_false : forall iss m a ma i kd, ARel iss m a ma -> ph a = Dropped ->
  ARel iss m a (m_spawn m i kd RFalse ma).
Proof.
  intros iss m a ma i kd [R1 R2 R3 R4 R5 R6 R7 R8] P.
  assert (eff_cut m (m_spawn m i kd RFalse ma) = eff_cut m ma) as EC by reflexivity.
  constructor; rewrite ?EC; cbn [m_spawn m_gone m_sent m_lstop m_cov m_must m_selfs is_true is_false andb]; auto.
  - now rewrite orb_false_r.
  - now rewrite orb_false_r.
Qed.

Lemma ARel_stop_true : forall iss m a ma n, AInv n a -> ARel iss m a ma -> ph a <> Dropped ->
  ARel iss m (push Stop a) (m_stop RTrue ma).
Proof.
  intros iss m a ma n I [R1 R2 R3 R4 R5 R6 R7 R8] P.
  assert (eff_cut m (m_stop RTrue ma) = true) as EC by (unfold eff_cut; cbn; now rewrite orb_true_r).
  constructor; rewrite ?EC, ?ph_push, ?pre_push, ?hist_push_live by auto; cbn [m_stop m_gone m_sent m_lstop m_cov m_must m_selfs is_true is_false]; try discriminate; auto.
  - rewrite orb_false_r. auto.
  - intros _. rewrite has_stop_app. cbn. rewrite orb_true_r. split; auto.
    destruct (eff_cut m ma) eqn:E.
    + destruct (R3 eq_refl) as [A B]. rewrite pre_stop_app_stop; auto.
    + rewrite (R2 eq_refl). eapply is_prefix_trans; [apply execs_pre_stop_prefix|].
      rewrite execs_app. cbn. rewrite app_nil_r. apply is_prefix_refl.
  - intros _. apply stopping_push_stop.
  - intros j Hj. destruct (R8 j Hj) as (t & T1 & T2 & T3). exists t. split; auto. apply in_or_app. auto.
Qed.

Lemma ARel_stop_false : forall iss m a ma, ARel iss m a ma -> ph a = Dropped -> ARel iss m a (m_stop RFalse ma).
Proof.
  intros iss m a ma [R1 R2 R3 R4 R5 R6 R7 R8] P.
  assert (eff_cut m (m_stop RFalse ma) = eff_cut m ma) as EC by (unfold eff_cut; cbn; now rewrite orb_false_r).
  constructor; rewrite ?EC; cbn [m_stop m_gone m_sent m_lstop m_cov m_must m_selfs is_true is_false]; try discriminate; auto.
  intros _. left. congruence.
Qed.

Lemma rx_alive_some : forall k l a, nth_error l k = Some a -> rx_alive k l = negb (is_dropped (ph a)).
Proof. intros k l a H. unfold rx_alive. now rewrite H. Qed.
Lemma rx_alive_none : forall k (l : list arb), nth_error l k = None -> rx_alive k l = false.
Proof. intros k l H. unfold rx_alive. now rewrite H. Qed.

Lemma src_true_of_hist : forall s m k a t c, MRel s m -> nth_error (arbs s) k = Some a ->
  In (Execute t) (hist a) -> tkind t = KStopSys c -> m_src m = true.
Proof.
  intros s m k a t c M E Ht K. destruct (m_src m) eqn:S; auto. destruct (M_src _ _ M S) as [_ B].
  exfalso. eapply B; eauto.
Qed.

Lemma may_stop_dropped : forall s m k a ma, MRel s m -> nth_error (arbs s) k = Some a ->
  nth_error (m_arbs m) k = Some ma -> ph a = Dropped -> may_stop m ma = true.
Proof.
  intros s m k a ma M E Em P. unfold may_stop. destruct (m_lstop ma) eqn:L; auto. destruct (m_src m) eqn:S; auto.
  destruct (M_src _ _ M S) as [I _]. destruct (r_nostop _ _ _ _ (M_arb _ _ M k a ma E Em) L I). congruence.
Qed.

Lemma MRel_spawn : forall s m ops' k kd, GInv s -> MRel s m ->
  MRel (send_op s ops' k (Execute (mkTask (pc s) kd)))
       (mstep m (pc s) (OSpawn k kd) (if rx_alive k (arbs s) then RTrue else RFalse)).
Proof.
  intros s m ops' k kd G M. unfold send_op. destruct (nth_both s m k M) as [[E Em]|(a & ma & E & Em)].
  - rewrite (rx_alive_none _ _ E). cbn [mstep]. rewrite Em. cbn [is_false].
    eapply MRel_view; [apply with_op_view | now apply MRel_set_ok].
  - rewrite (rx_alive_some _ _ _ E). pose proof (M_arb _ _ M k a ma E Em) as R.
    destruct (ph a) eqn:P; cbn [is_dropped negb].
    3:{ (* receiver gone: false *)
      eapply MRel_view; [apply with_op_view|].
      assert (mstep m (pc s) (OSpawn k kd) RFalse = set_marbs m (upd k (m_spawn m (pc s) kd RFalse) (m_arbs m)) (may_stop m ma)) as ->.
      { cbn [mstep]. rewrite Em. cbn [send_ok]. destruct kd; reflexivity. }
      rewrite (may_stop_dropped s m k a ma M E Em P).
      eapply (MRel_upd_k s s m _ k a ma (fun x => x) (m_spawn m (pc s) kd RFalse)); eauto; cbn; auto.
      - now rewrite upd_id.
      - now rewrite (M_hangs _ _ M).
      - now rewrite (M_ok _ _ M).
      - eapply ARel_mon; [|apply ARel_spawn_false; eauto]. reflexivity.
      - intros t c Ht K. split; [eapply M_cands; eauto | eapply src_true_of_hist; eauto]. }
    all: assert (ph a <> Dropped) as PD by congruence.
    all: assert (m_gone ma = false) as NG by (destruct (m_gone ma) eqn:X; auto; specialize (r_gone _ _ _ _ R X); congruence).
    all: set (m' := mstep m (pc s) (OSpawn k kd) RTrue).
    all: assert (m_arbs m' = upd k (m_spawn m (pc s) kd RTrue) (m_arbs m) /\ m_ret m' = m_ret m /\ m_direct m' = m_direct m
                 /\ m_hangs m' = m_hangs m /\ m_waited m' = m_waited m /\ m_ok m' = (m_ok m && negb (m_gone ma))
                 /\ (m_src m' = false -> m_src m = false) /\ (m_src m = true -> m_src m' = true)
                 /\ (forall x, In x (m_cands m) -> In x (m_cands m'))
                 /\ (forall c, kd = KStopSys c -> m_src m' = true /\ (In (pc s, c) (m_cands m') \/ m_direct m' <> None)))
        as (X1 & X2 & X3 & X4 & X5 & X6 & X7 & X7' & X8 & X9)
        by (subst m'; cbn [mstep]; rewrite Em; cbn [send_ok]; destruct kd; cbn; repeat split; auto; try discriminate;
            try (match goal with H : KStopSys _ = KStopSys _ |- _ => inversion H; subst end;
                 destruct (m_direct m); [right; discriminate | left; apply in_or_app; right; left; auto]);
            try (destruct (m_direct m); auto; intros x Hx; apply in_or_app; auto)).
    all: eapply (MRel_upd_k s _ m m' k a ma (push (Execute (mkTask (pc s) kd))) (m_spawn m (pc s) kd RTrue)); eauto; try reflexivity.
    all: try (rewrite X4; apply (M_hangs _ _ M)).
    all: try (rewrite X5; intros x Hx; left; auto).
    all: try (rewrite X6, NG, (M_ok _ _ M); reflexivity).
    all: try (eapply ARel_mon; [|apply ARel_spawn_true; eauto]; auto).
    all: try (unfold started; rewrite alog_push; auto).
    all: intros t c Ht K; rewrite hist_push_live in Ht by auto; apply in_app_or in Ht as [Ht|[Ht|[]]].
    all: try (split; [destruct (M_cands _ _ M k a t c E Ht K) as [Y|Y]; [left; auto | right; congruence] | apply X7'; eapply src_true_of_hist; eauto]).
    all: inversion Ht; subst t; cbn in K; destruct (X9 c K) as [Y1 Y2]; split; auto.
Qed.

Lemma MRel_stop : forall s m ops' k, GInv s -> MRel s m ->
  MRel (send_op s ops' k Stop) (mstep m (pc s) (OStop k) (if rx_alive k (arbs s) then RTrue else RFalse)).
Proof.
  intros s m ops' k G M. unfold send_op. destruct (nth_both s m k M) as [[E Em]|(a & ma & E & Em)].
  - rewrite (rx_alive_none _ _ E). cbn [mstep]. rewrite Em. cbn [is_false].
    eapply MRel_view; [apply with_op_view | now apply MRel_set_ok].
  - rewrite (rx_alive_some _ _ _ E). pose proof (M_arb _ _ M k a ma E Em) as R.
    destruct (g_arb _ G k a E) as (I & _).
    assert (forall t c, In (Execute t) (hist a) -> tkind t = KStopSys c ->
              (In (tid t, c) (m_cands m) \/ m_direct m <> None) /\ m_src m = true) as HK.
    { intros t c Ht K. split; [eapply M_cands; eauto | eapply src_true_of_hist; eauto]. }
    destruct (ph a) eqn:P; cbn [is_dropped negb mstep]; rewrite Em; cbn [send_ok].
    3:{ eapply MRel_view; [apply with_op_view|]. rewrite (may_stop_dropped s m k a ma M E Em P).
        eapply (MRel_upd_k s s m _ k a ma (fun x => x) (m_stop RFalse)); eauto; cbn; auto.
        - now rewrite upd_id.
        - now rewrite (M_hangs _ _ M).
        - now rewrite (M_ok _ _ M).
        - eapply ARel_mon; [|apply ARel_stop_false; eauto]. reflexivity. }
    all: assert (ph a <> Dropped) as PD by congruence.
    all: assert (m_gone ma = false) as NG by (destruct (m_gone ma) eqn:X; auto; specialize (r_gone _ _ _ _ R X); congruence).
    all: eapply (MRel_upd_k s _ m _ k a ma (push Stop) (m_stop RTrue)); eauto; try reflexivity; cbn.
    all: try (now rewrite (M_hangs _ _ M)).
    all: try (intros x Hx; left; auto).
    all: try (rewrite NG, (M_ok _ _ M); reflexivity).
    all: try (eapply ARel_mon; [|eapply ARel_stop_true; eauto]; reflexivity).
    all: try (unfold started; rewrite alog_push; auto).
    all: intros t c Ht K; rewrite hist_push_live in Ht by auto; apply in_app_or in Ht as [Ht|[Ht|[]]]; [auto | discriminate].
Qed.

Lemma MRel_sysstop : forall s m ops' c, GInv s -> MRel s m ->
  MRel (with_op s RUnit ops' (arbs s) (sys_send (Exit c) s) true) (mstep m (pc s) (OSysStop c) RUnit).
Proof.
  intros s m ops' c G M. pose proof M as [M1 M2 M3 M4 M5 M6 M7 M8 M9 M10]. cbn [mstep is_unit].
  constructor; cbn; auto.
  - intros k a ma H1 H2. eapply ARel_mon; [|eapply ARel_iss; eauto]. reflexivity.
  - discriminate.
  - intros _. split; auto. destruct (alive s) eqn:A; auto. right. right. unfold sys_send. rewrite A.
    fold (has_exit (sysq s ++ [Exit c])). rewrite has_exit_app. cbn. apply orb_true_r.
  - intros k a t c0 H Ht K. right. destruct (m_direct m); discriminate.
  - intros c0 Hc. unfold first_exit in *. cbn in Hc.
    destruct (first_exit s) as [x|] eqn:F.
    + assert (x = c0) as ->.
      { unfold first_exit in F. destruct (exitc s); [congruence|]. unfold sys_send in Hc. destruct (alive s); [|congruence].
        rewrite first_exit_q_app, F in Hc. congruence. }
      destruct (M6 c0 F) as [A|(i & A & B)]; [left; now rewrite A | right; eauto].
    + left. unfold first_exit in F. destruct (exitc s) as [y|] eqn:X; [discriminate|].
      destruct (alive s) eqn:A; [|destruct (g_alive _ G A); auto].
      unfold sys_send in Hc. rewrite A, first_exit_q_app, F in Hc. inversion Hc; subst c0.
      destruct (m_direct m) as [d|] eqn:D; auto. exfalso.
      assert (m_direct m <> None) as ND by congruence. rewrite D in ND.
      destruct (M4 ltac:(congruence)) as [_ [B|[B|B]]]; try congruence. apply has_exit_first in B. congruence.
  - now rewrite M10.
Qed.

(* a monitor that agrees with m on everything MRel reads *)
Lemma MRel_mon_eq : forall s m m', MRel s m ->
  m_arbs m' = m_arbs m -> m_src m' = m_src m -> m_direct m' = m_direct m -> m_cands m' = m_cands m ->
  m_ret m' = m_ret m -> m_hangs m' = [] -> m_waited m' = m_waited m -> m_ok m' = true -> MRel s m'.
Proof.
  intros s m m' [M1 M2 M3 M4 M5 M6 M7 M8 M9 M10] E1 E2 E3 E4 E5 E6 E7 E8.
  constructor; unfold allowed in *; rewrite ?E1, ?E2, ?E3, ?E4, ?E5, ?E7; auto.
  intros k a ma H1 H2. eapply ARel_mon; [|eauto]. auto.
Qed.

Lemma issued_of_dead : forall s, GInv s -> alive s = false -> issued s = true.
Proof.
  intros s G A. destruct (issued s) eqn:I; auto. destruct (g_iss _ G I) as (B & _). congruence.
Qed.

Lemma MRel_waitrun_ret : forall s m ops', GInv s -> MRel s m -> alive s = false ->
  MRel (with_op s RRet ops' (arbs s) (sysq s) (issued s)) (mstep m (pc s) OWaitRun RRet).
Proof.
  intros s m ops' G M A. eapply MRel_view; [apply with_op_view|]. cbn [mstep].
  pose proof M as [M1 M2 M3 M4 M5 M6 M7 M8 M9 M10]. constructor; cbn; auto.
  intros k a ma H1 H2. destruct (M2 k a ma H1 H2) as [R1 R2 R3 R4 R5 R6 R7 R8].
  destruct (g_arb _ G k a H1) as (I & _).
  constructor; auto.
  - intros H. apply R2. unfold eff_cut in *. cbn [m_ret] in H. rewrite andb_true_r in H.
    apply orb_false_iff in H as [H1' H2']. now rewrite H1', H2'.
  - intros H. destruct (eff_cut m ma) eqn:E; [auto|].
    unfold eff_cut in H, E. cbn [m_ret] in H. rewrite andb_true_r in H.
    apply orb_false_iff in E as [E1 E2]. rewrite E1 in H. cbn in H.
    assert (stopping a) as St.
    { destruct (g_doom _ G k a H1 (R6 H) (issued_of_dead s G A)) as [D|(D & _)]; [auto | congruence]. }
    split; [eapply stopping_has_stop; eauto|].
    rewrite R2; [apply execs_pre_stop_prefix | first [reflexivity | unfold eff_cut; now rewrite E1, E2]].
Qed.

Lemma MRel_waitrun_hang : forall s m ops', GInv s -> MRel s m -> alive s = true -> quiescent s = true ->
  MRel (with_op s RHang ops' (arbs s) (sysq s) (issued s)) (mstep m (pc s) OWaitRun RHang).
Proof.
  intros s m ops' G M A Q. eapply MRel_view; [apply with_op_view|]. cbn [mstep].
  destruct (quiescent_sys s Q A) as [Q1 Q2].
  assert (m_direct m = None) as ->.
  { destruct (m_direct m) eqn:D; auto. exfalso. destruct (M_direct _ _ M ltac:(congruence)) as [_ [B|[B|B]]]; try congruence.
    rewrite Q1 in B. discriminate. }
  now apply MRel_set_ok.
Qed.

Lemma in_execs : forall l t, In (Execute t) l -> In (tid t) (execs l).
Proof.
  induction l as [|[|x] l IH]; intros t H; cbn in *; try contradiction.
  - destruct H as [H|H]; [discriminate | auto].
  - destruct H as [H|H]; [inversion H; auto | right; auto].
Qed.

Lemma quiescent_all_started : forall n s k a, AInv n a -> quiescent s = true -> nth_error (arbs s) k = Some a ->
  ph a <> Dropped -> has_stop (hist a) = false /\ execs (hist a) = started a.
Proof.
  intros n s k a I Q E P. destruct (quiescent_arb s k a Q E P) as (A & B & C).
  destruct (ai_run _ _ I A) as (dn & E1 & E2 & E3). rewrite B, app_nil_r in E1. rewrite C in E3. cbn in E3.
  rewrite app_nil_r in E3. rewrite E1. auto.
Qed.

Lemma MRel_join : forall s m ops' k r, GInv s -> MRel s m ->
  (match nth_error (arbs s) k with Some a => is_dropped (ph a) | None => true end = true /\ r = RJoined) \/
  (match nth_error (arbs s) k with Some a => is_dropped (ph a) | None => true end = false /\ quiescent s = true /\ r = RHang) ->
  MRel (with_op s r ops' (arbs s) (sysq s) (issued s)) (mstep m (pc s) (OJoin k) r).
Proof.
  intros s m ops' k r G M C. eapply MRel_view; [apply with_op_view|]. cbn [mstep].
  destruct (nth_both s m k M) as [[E Em]|(a & ma & E & Em)]; rewrite Em; rewrite E in C.
  - destruct C as [[_ ->]|[C _]]; [now apply MRel_set_ok | discriminate].
  - pose proof (M_arb _ _ M k a ma E Em) as R. destruct (g_arb _ G k a E) as (I & _).
    destruct C as [[C ->]|(C & Q & ->)].
    + assert (ph a = Dropped) as P by (destruct (ph a); try discriminate; auto).
      eapply (MRel_upd_k s s m _ k a ma (fun x => x) m_joined); eauto; cbn; auto.
      * now rewrite upd_id.
      * apply (M_hangs _ _ M).
      * now rewrite (M_ok _ _ M).
      * destruct R as [R1 R2 R3 R4 R5 R6 R7 R8]. constructor; auto; unfold eff_cut; cbn; try discriminate.
        intros _. destruct (ai_end _ _ I ltac:(congruence)) as [_ HS]. split; auto.
        destruct (eff_cut m ma) eqn:EC; [apply R3; first [reflexivity | exact EC]|].
        rewrite R2 by first [reflexivity | exact EC]. apply execs_pre_stop_prefix.
      * intros t c Ht K. split; [eapply M_cands; eauto | eapply src_true_of_hist; eauto].
    + assert (ph a <> Dropped) as P by (intros X; rewrite X in C; discriminate).
      destruct (quiescent_all_started _ s k a I Q E P) as [NS AS].
      assert (m_selfs ma = []) as SE.
      { destruct (m_selfs ma) as [|i l] eqn:X; auto. exfalso.
        destruct (r_selfs _ _ _ _ R i) as (t & T1 & T2 & T3); [rewrite X; left; auto|].
        assert (has_stop (hist a) = true); [|congruence].
        apply (ai_self _ _ I t T1 T3). rewrite <- AS. now apply in_execs. }
      assert (m_must ma = false) as MU.
      { destruct (m_must ma) eqn:X; auto. exfalso. eapply quiescent_not_stopping; eauto. apply (r_must _ _ _ _ R X). }
      assert ((m_cov ma && match m_direct m with Some _ => true | None => false end) = false) as CD.
      { destruct (m_cov ma) eqn:X; auto. destruct (m_direct m) eqn:D; auto. exfalso.
        destruct (M_direct _ _ M ltac:(congruence)) as [Is _].
        destruct (g_doom _ G k a E (r_cov _ _ _ _ R X) Is) as [St|(D1 & D2 & D3)].
        - eapply quiescent_not_stopping; eauto.
        - destruct (quiescent_sys s Q D1) as [Q1 _]. rewrite Q1 in D3. discriminate. }
      apply (MRel_mon_eq s m); auto; cbn.
      * rewrite SE, (M_hangs _ _ M). reflexivity.
      * rewrite MU, CD, (M_ok _ _ M). reflexivity.
Qed.

Lemma started_on_spec : forall i a, started_on i a = true <-> In i (started a).
Proof.
  intros. unfold started_on, started, tids. rewrite existsb_exists. split.
  - intros (e & H1 & H2). apply Nat.eqb_eq in H2. subst i. now apply in_map.
  - intros H. apply in_map_iff in H as (e & H1 & H2). exists e. split; auto. apply Nat.eqb_eq. auto.
Qed.

Lemma existsb_eqb_in : forall i l, existsb (Nat.eqb i) l = true <-> In i l.
Proof.
  intros. rewrite existsb_exists. split.
  - intros (x & H1 & H2). apply Nat.eqb_eq in H2. now subst.
  - intros H. exists i. split; auto. apply Nat.eqb_refl.
Qed.

Lemma MRel_await : forall s m ops' k i r, GInv s -> MRel s m ->
  (match nth_error (arbs s) k with Some a => started_on i a | None => false end = true /\ r = RStarted) \/
  (match nth_error (arbs s) k with Some a => started_on i a | None => false end = false /\ quiescent s = true /\ r = RHang) ->
  MRel (with_op s r ops' (arbs s) (sysq s) (issued s)) (mstep m (pc s) (OAwait k i) r).
Proof.
  intros s m ops' k i r G M C. eapply MRel_view; [apply with_op_view|]. cbn [mstep].
  destruct (nth_both s m k M) as [[E Em]|(a & ma & E & Em)]; rewrite E in C.
  - destruct C as [[C _]|(_ & _ & ->)]; [discriminate|]. rewrite Em. now apply MRel_set_ok.
  - pose proof (M_arb _ _ M k a ma E Em) as R. destruct (g_arb _ G k a E) as (I & _).
    destruct C as [[C ->]|(C & Q & ->)].
    + apply started_on_spec in C.
      eapply (MRel_upd_k s s m _ k a ma (fun x => x)
                (fun a0 => if existsb (Nat.eqb i) (m_selfs a0) then m_cutnow a0 else a0)); eauto; cbn; auto.
      * now rewrite upd_id.
      * apply (M_hangs _ _ M).
      * intros x Hx. apply in_app_or in Hx as [Hx|[<-|[]]]; auto.
      * apply (M_ok _ _ M).
      * destruct (existsb (Nat.eqb i) (m_selfs ma)) eqn:X; [|eapply ARel_mon; [|eauto]; reflexivity].
        apply existsb_eqb_in in X. destruct R as [R1 R2 R3 R4 R5 R6 R7 R8].
        destruct (R8 i X) as (t & T1 & T2 & T3). subst i.
        pose proof (ai_self _ _ I t T1 T3 C) as HS.
        constructor; auto; unfold eff_cut; cbn; try discriminate.
        intros _. split; auto.
        destruct (eff_cut m ma) eqn:EC; [apply R3; first [reflexivity | exact EC]|].
        rewrite R2 by first [reflexivity | exact EC]. apply execs_pre_stop_prefix.
      * intros t c Ht K. split; [eapply M_cands; eauto | eapply src_true_of_hist; eauto].
    + rewrite Em.
      assert (negb (existsb (Nat.eqb i) (m_sent ma) && negb (may_stop m ma)) = true) as ->; [|now apply MRel_set_ok].
      apply negb_true_iff. apply andb_false_iff.
      destruct (existsb (Nat.eqb i) (m_sent ma)) eqn:X; auto. right. apply negb_false_iff.
      destruct (may_stop m ma) eqn:MS; auto. exfalso.
      unfold may_stop in MS. apply orb_false_iff in MS as [L S]. destruct (M_src _ _ M S) as [Is _].
      destruct (r_nostop _ _ _ _ R L Is) as [P NS].
      assert (eff_cut m ma = false) as EC.
      { destruct (eff_cut m ma) eqn:EC; auto. destruct (r_cut _ _ _ _ R EC). congruence. }
      apply existsb_eqb_in in X. rewrite (r_nocut _ _ _ _ R EC) in X.
      destruct (quiescent_all_started _ s k a I Q E ltac:(congruence)) as [_ AS]. rewrite AS in X.
      apply started_on_spec in X. congruence.
Qed.

(* ---------- the coordinator step, and the simulation ---------- *)
Ltac fin o r := right; eexists o, _, r; split; [reflexivity|]; split; [reflexivity|]; split; [reflexivity|];
  split; [reflexivity|].

Lemma MRel_coord : forall s m, GInv s -> MRel s m ->
  step s LCoord = s \/
  exists o ops' r, rest s = o :: ops' /\ rest (step s LCoord) = ops' /\ olog (step s LCoord) = olog s ++ [r]
                   /\ pc (step s LCoord) = S (pc s) /\ MRel (step s LCoord) (mstep m (pc s) o r).
Proof.
  intros s m G M. cbn [step]. unfold coord. destruct (rest s) as [|o ops'] eqn:Rs; auto.
  destruct o as [|k kd|k|c| |k|k|k i].
  - fin ONew RUnit. now apply MRel_new.
  - pose proof (MRel_spawn s m ops' k kd G M) as H. unfold send_op in *.
    destruct (rx_alive k (arbs s)); [fin (OSpawn k kd) RTrue | fin (OSpawn k kd) RFalse]; exact H.
  - pose proof (MRel_stop s m ops' k G M) as H. unfold send_op in *.
    destruct (rx_alive k (arbs s)); [fin (OStop k) RTrue | fin (OStop k) RFalse]; exact H.
  - fin (OSysStop c) RUnit. now apply MRel_sysstop.
  - unfold wait_op. destruct (alive s) eqn:A; cbn [negb].
    + destruct (quiescent s) eqn:Q; auto. fin OWaitRun RHang. now apply MRel_waitrun_hang.
    + fin OWaitRun RRet. now apply MRel_waitrun_ret.
  - unfold wait_op. destruct (match nth_error (arbs s) k with Some a => is_dropped (ph a) | None => true end) eqn:C.
    + fin (OJoin k) RJoined. apply MRel_join; auto.
    + destruct (quiescent s) eqn:Q; auto. fin (OJoin k) RHang. apply MRel_join; auto.
  - fin (ODrop k) RUnit.
    eapply MRel_view; [apply with_op_view|]. cbn [mstep is_unit]. now apply MRel_set_ok.
  - unfold wait_op. destruct (match nth_error (arbs s) k with Some a => started_on i a | None => false end) eqn:C.
    + fin (OAwait k i) RStarted. apply MRel_await; auto.
    + destruct (quiescent s) eqn:Q; auto. fin (OAwait k i) RHang. apply MRel_await; auto.
Qed.

Lemma mfold_snoc : forall dn rs m i o r, length dn = length rs ->
  mfold m i (dn ++ [o]) (rs ++ [r]) = mstep (mfold m i dn rs) (i + length dn) o r.
Proof.
  induction dn as [|x dn IH]; intros [|y rs] m i o r L; cbn in *; try discriminate.
  - now rewrite Nat.add_0_r.
  - rewrite IH by lia. f_equal. lia.
Qed.

Lemma mfold_short : forall dn rst rs m i, length dn = length rs -> mfold m i (dn ++ rst) rs = mfold m i dn rs.
Proof.
  induction dn as [|x dn IH]; intros rst [|y rs] m i L; cbn in *; try discriminate; auto.
  destruct rst; auto.
Qed.

Definition Sim (ops : list op) (s : st) : Prop :=
  exists dn, ops = dn ++ rest s /\ length dn = pc s /\ MRel s (mfold mon0 0 dn (olog s)).

Lemma MRel_init : forall ops, MRel (init ops) mon0.
Proof.
  intros. constructor; cbn; auto; try discriminate; try contradiction.
  - intros [|k] a ma H; discriminate.
  - intros _. split; auto. intros [|k] a t c H; discriminate.
  - intros [|k] a t c H; discriminate.
Qed.

Lemma Sim_step : forall ops s l, GInv s -> Sim ops s -> Sim ops (step s l).
Proof.
  intros ops s l G (dn & E & L & M).
  destruct l as [| k | k | | | k].
  1:{ destruct (MRel_coord s _ G M) as [->|(o & ops' & r & R1 & R2 & R3 & R4 & R5)]; [exists dn; auto|].
      exists (dn ++ [o]). rewrite R2, R3, R4. split; [rewrite E, R1, <- app_assoc; reflexivity|].
      split; [rewrite app_length; cbn; lia|].
      rewrite mfold_snoc by (rewrite <- (g_pc _ G); auto). cbn. rewrite L. auto. }
  all: exists dn.
  all: match goal with |- context [step ?s0 ?lab] =>
         assert (rest (step s0 lab) = rest s0 /\ pc (step s0 lab) = pc s0 /\ olog (step s0 lab) = olog s0) as (X1 & X2 & X3);
         [|rewrite X1, X2, X3; split; auto; split; auto; apply MRel_internal; auto; discriminate] end.
  - cbn. auto.
  - cbn. unfold task_step. destruct (nth_error (arbs s) k); auto. destruct (ph a); auto. destruct (lq a); auto.
    destruct (tkind t); auto.
  - cbn. unfold sys_step. destruct (alive s); auto. destruct (sysq s) as [|[c|j|j] q]; auto.
  - cbn. unfold sys_ret. destruct (alive s); auto. destruct (exitc s); auto.
  - cbn. unfold drop_step. destruct (nth_error (arbs s) k); auto. destruct (ph a); auto.
Qed.

Theorem Sim_run : forall ops sched, GInv (run ops sched) /\ Sim ops (run ops sched).
Proof.
  intros ops sched. unfold run.
  apply (fold_step_inv (fun s => GInv s /\ Sim ops s)).
  - intros s l [G S]. split; [now apply GInv_step | now apply Sim_step].
  - split; [apply GInv_init|]. exists []. split; [reflexivity|]. split; [reflexivity|]. apply MRel_init.
Qed.

(* ---------- final checks ---------- *)
Lemma check_arbs_ok : forall la lm k0,
  length la = length lm ->
  (forall j a ma, nth_error la j = Some a -> nth_error lm j = Some ma ->
     is_prefix (tids (alog a)) (m_sent ma) = true /\
     (forall e, In e (alog a) -> e_thr e = 2 + (k0 + j) /\ e_sys e = 0)) ->
  check_arbs k0 (map alog la) lm = true.
Proof.
  induction la as [|a la IH]; intros [|ma lm] k0 L H; cbn in *; try discriminate; auto.
  destruct (H 0 a ma eq_refl eq_refl) as [H1 H2]. rewrite H1. cbn.
  apply andb_true_iff. split.
  - apply forallb_forall. intros e He. destruct (H2 e He) as [A B]. rewrite A, B, Nat.add_0_r, !Nat.eqb_refl. reflexivity.
  - apply IH; [lia|]. intros j b mb Hb Hm. destruct (H (S j) b mb Hb Hm) as [A B]. split; auto.
    intros e He. destruct (B e He) as [B1 B2]. split; auto. rewrite B1. lia.
Qed.

Lemma retv_eqb_refl : forall v, retv_eqb v v = true.
Proof. intros [c| |]; cbn; auto. apply Z.eqb_refl. Qed.

Lemma started_any_spec : forall userun s i, started_any (observable_log userun s) i = true <-> started_in s i.
Proof.
  intros. unfold started_any, started_in, observable_log. cbn. rewrite existsb_exists. split.
  - intros (l & H1 & H2). apply in_map_iff in H1 as (a & <- & Ha). apply In_nth_error in Ha as [k Hk].
    exists k, a. split; auto. now apply existsb_eqb_in.
  - intros (k & a & H1 & H2). exists (alog a). split; [apply in_map; eapply nth_error_In; eauto|].
    now apply existsb_eqb_in.
Qed.

Theorem accepts_of_sim : forall userun ops s, GInv s -> Sim ops s ->
  Rt_accepts userun ops (observable_log userun s) = true.
Proof.
  intros userun ops s G (dn & E & L & M).
  unfold Rt_accepts, Rt_accepts_why. cbn [g_ops observable_log].
  assert (mfold mon0 0 ops (olog s) = mfold mon0 0 dn (olog s)) as ->.
  { rewrite E. apply mfold_short. rewrite <- (g_pc _ G). auto. }
  set (m := mfold mon0 0 dn (olog s)) in *.
  pose proof M as [M1 M2 M3 M4 M5 M6 M7 M8 M9 M10].
  rewrite M10. cbn [negb].
  assert (check_arbs 0 (g_arbs (observable_log userun s)) (m_arbs m) = true) as ->.
  { cbn. apply check_arbs_ok; [auto|]. intros j a ma Ha Hm. destruct (g_arb _ G j a Ha) as (I & T1 & T2).
    pose proof (M2 j a ma Ha Hm) as R. split.
    - eapply is_prefix_trans; [apply (started_prefix_pre_stop _ _ I)|].
      destruct (eff_cut m ma) eqn:EC; [apply (r_cut _ _ _ _ R EC)|]. rewrite (r_nocut _ _ _ _ R EC). apply execs_pre_stop_prefix.
    - intros e He. destruct (ai_id _ _ I e He) as [A B]. split; [rewrite A, T1; reflexivity | rewrite B, T2; reflexivity]. }
  cbn [negb].
  assert (check_ret userun m (observable_log userun s) = true) as ->.
  { unfold check_ret. cbn [g_ret observable_log]. rewrite (gi_ret _ G). destruct (alive s) eqn:A; cbn.
    - destruct (m_ret m) eqn:X; auto. assert (true = false) as Y by (apply M7; reflexivity). discriminate Y.
    - destruct (exitc s) as [c|] eqn:X; [|destruct (g_alive _ G A); auto]. cbn.
      apply existsb_exists. exists c. split; [|apply retv_eqb_refl].
      assert (first_exit s = Some c) as F by (unfold first_exit; now rewrite X).
      unfold allowed_codes. apply in_or_app. destruct (M6 c F) as [D|(i & D1 & D2)].
      + left. rewrite D. left. auto.
      + right. apply in_map_iff. exists (i, c). split; auto. apply filter_In. split; auto.
        cbn [fst]. apply (proj2 (started_any_spec userun s i)). exact D2. }
  cbn [negb]. rewrite M8. cbn [forallb negb].
  assert (check_waited m (observable_log userun s) = true) as ->.
  { unfold check_waited. apply forallb_forall. intros [k i] Hw. cbn. destruct (M9 k i Hw) as (a & Ha & Hi).
    rewrite nth_error_map, Ha. cbn. now apply existsb_eqb_in. }
  cbn [negb].
  assert (length (olog s) <=? length ops = true) as ->.
  { apply Nat.leb_le. rewrite <- (g_pc _ G), <- L, E, app_length. lia. }
  reflexivity.
Qed.

(* Soundness of the acceptance predicate that is used as monitor on the implementation's logs:
   whatever the script and whatever the schedule, the log of the model is accepted. *)
Theorem Rt_accepts_sound_all : forall userun ops sched,
  Rt_accepts userun ops (observable_log userun (run ops sched)) = true.
Proof. intros. destruct (Sim_run ops sched) as [G S]. now apply accepts_of_sim. Qed.

(* ====================== statements used by Props/C09.v and Props/C10.v ====================== *)

(* ---- C10 ---- *)
Lemma run_arb : forall ops sched k a, nth_error (arbs (run ops sched)) k = Some a ->
  AInv (pc (run ops sched)) a /\ a_thr a = 2 + k /\ a_sys a = 0.
Proof. intros ops sched k a H. exact (g_arb _ (GInv_run ops sched) k a H). Qed.

Lemma fifo_run : forall ops sched k a, nth_error (arbs (run ops sched)) k = Some a ->
  is_prefix (started a) (execs (pre_stop (hist a))) = true.
Proof. intros ops sched k a H. destruct (run_arb _ _ _ _ H) as (I & _). eapply started_prefix_pre_stop; eauto. Qed.

Lemma prefix_nodup : forall a b, is_prefix a b = true -> NoDup b -> NoDup a.
Proof.
  intros a b H N. apply is_prefix_spec in H as [r ->]. induction a as [|x a IH]; cbn in *; [constructor|].
  inversion N; subst. constructor; auto. intros X. apply H1. apply in_or_app. auto.
Qed.

Lemma prefix_in : forall a b i, is_prefix a b = true -> In i a -> In i b.
Proof. intros a b i H I. apply is_prefix_spec in H as [r ->]. apply in_or_app. auto. Qed.

Lemma once_run : forall ops sched k a, nth_error (arbs (run ops sched)) k = Some a -> NoDup (started a).
Proof.
  intros ops sched k a H. destruct (run_arb _ _ _ _ H) as (I & _).
  eapply prefix_nodup; [eapply started_prefix_pre_stop; eauto|].
  eapply prefix_nodup; [apply execs_pre_stop_prefix | apply (ai_nodup _ _ I)].
Qed.

Lemma pre_stop_split : forall pre post, exists r, pre = pre_stop (pre ++ Stop :: post) ++ r.
Proof.
  induction pre as [|[|x] pre IH]; intros post; cbn.
  - exists []. auto.
  - eexists. reflexivity.
  - destruct (IH post) as [r E]. exists r. now rewrite <- E.
Qed.

Lemma after_stop_run : forall ops sched k a pre post, nth_error (arbs (run ops sched)) k = Some a ->
  hist a = pre ++ Stop :: post -> forall i, In i (execs post) -> ~ In i (started a).
Proof.
  intros ops sched k a pre post H E i Hi Hs. destruct (run_arb _ _ _ _ H) as (I & _).
  pose proof (ai_nodup _ _ I) as N. pose proof (started_prefix_pre_stop _ _ I) as P.
  rewrite E in N, P. apply (prefix_in _ _ i P) in Hs.
  destruct (pre_stop_split pre post) as [r Er].
  assert (In i (execs pre)) as Hp by (rewrite Er, execs_app; apply in_or_app; auto).
  rewrite execs_app in N. cbn in N. clear - N Hi Hp.
  induction (execs pre) as [|x l IH]; cbn in *; [contradiction|]. inversion N; subst.
  destruct Hp as [->|Hp]; [apply H1; apply in_or_app; auto | auto].
Qed.

Lemma identity_run : forall ops sched k a e, nth_error (arbs (run ops sched)) k = Some a -> In e (alog a) ->
  e_thr e = a_thr a /\ a_thr a = 2 + k /\ e_sys e = a_sys a /\ a_sys a = 0.
Proof.
  intros ops sched k a e H He. destruct (run_arb _ _ _ _ H) as (I & T1 & T2).
  destruct (ai_id _ _ I e He) as [A B]. auto.
Qed.

(* the result of a send is false iff the receiver is gone (or the arbiter never existed) *)
Lemma send_result : forall s ops' k c,
  olog (send_op s ops' k c) = olog s ++ [if rx_alive k (arbs s) then RTrue else RFalse] /\
  (rx_alive k (arbs s) = false <-> (forall a, nth_error (arbs s) k = Some a -> ph a = Dropped)).
Proof.
  intros. split.
  - unfold send_op. destruct (rx_alive k (arbs s)); reflexivity.
  - unfold rx_alive. destruct (nth_error (arbs s) k) as [a|]; [|split; [intros _ a H; discriminate | auto]].
    split.
    + intros H b Hb. inversion Hb; subst b. destruct (ph a); cbn in H; try discriminate; auto.
    + intros H. rewrite (H a eq_refl). reflexivity.
Qed.

(* a send to an arbiter whose receiver is gone changes nothing; the receiver never comes back *)
Lemma dropped_absorbing : forall s l k a, nth_error (arbs s) k = Some a -> ph a = Dropped ->
  exists a', nth_error (arbs (step s l) ) k = Some a' /\ ph a' = Dropped /\ alog a' = alog a.
Proof.
  intros s l k a E P.
  assert (forall f, (forall b, ph b = Dropped -> ph (f b) = Dropped /\ alog (f b) = alog b) ->
          forall j, exists a', nth_error (upd j f (arbs s)) k = Some a' /\ ph a' = Dropped /\ alog a' = alog a) as U.
  { intros f Hf j. rewrite nth_upd. destruct (Nat.eqb_spec k j) as [<-|N]; rewrite ?E; cbn; eauto.
    all: try (destruct (Hf a P); eauto). }
  assert (forall c b, ph b = Dropped -> ph (push c b) = Dropped /\ alog (push c b) = alog b) as HP.
  { intros c b Hb. rewrite push_dropped; auto. }
  destruct l as [| j | j | | | j]; cbn [step].
  - unfold coord. destruct (rest s) as [|o ops']; eauto. destruct o; cbn; unfold send_op, wait_op;
      repeat match goal with |- context [if ?c then _ else _] => destruct c end; cbn; eauto.
    all: try (apply U; apply HP).
    exists a. rewrite nth_error_app1; auto. apply nth_error_Some. congruence.
  - cbn. apply U. intros b Hb. unfold runner. rewrite Hb. auto.
  - unfold task_step. destruct (nth_error (arbs s) j) as [b|] eqn:Eb; eauto.
    destruct (ph b) eqn:Pb; eauto. destruct (lq b) eqn:Lb; eauto.
    assert (j <> k) as N by (intros ->; congruence).
    destruct (tkind t); cbn; rewrite ?upd_upd; rewrite nth_upd_other by auto; eauto.
  - unfold sys_step. destruct (alive s); eauto. destruct (sysq s) as [|[c|r|d] q]; cbn; eauto.
    rewrite stop_all_nth, E. cbn. eexists. split; eauto.
    destruct (iter_fields (count_occ Nat.eq_dec (reg s) k) a) as [_ F]. split; [congruence|].
    clear. induction (count_occ Nat.eq_dec (reg s) k); cbn; auto. now rewrite alog_push.
  - unfold sys_ret. destruct (alive s); eauto. destruct (exitc s); cbn; eauto.
  - unfold drop_step. destruct (nth_error (arbs s) j) as [b|] eqn:Eb; eauto. destruct (ph b) eqn:Pb; eauto.
Qed.

(* join returns only once the loop has ended and the thread has finished (phase Dropped comes after Ended) *)
Lemma join_only_after_end : forall s k ops', rest s = OJoin k :: ops' ->
  olog (step s LCoord) = olog s ++ [RJoined] -> forall a, nth_error (arbs s) k = Some a -> ph a = Dropped.
Proof.
  intros s k ops' R H a E. cbn [step] in H. unfold coord in H. rewrite R in H. unfold wait_op in H. rewrite E in H.
  destruct (ph a) eqn:P; auto; cbn in H.
  - destruct (quiescent s); cbn in H; [apply app_inv_head in H; discriminate|].
    apply (f_equal (@length _)) in H. rewrite app_length in H. cbn in H. lia.
  - destruct (quiescent s); cbn in H; [apply app_inv_head in H; discriminate|].
    apply (f_equal (@length _)) in H. rewrite app_length in H. cbn in H. lia.
Qed.

Lemma dropped_only_from_ended : forall s l k a a', nth_error (arbs s) k = Some a ->
  nth_error (arbs (step s l)) k = Some a' -> ph a' = Dropped -> ph a = Dropped \/ (ph a = Ended /\ l = LDrop k).
Proof.
  intros s l k a a' E E' P'.
  assert (forall f j, (forall b, ph (f b) = Dropped -> ph b = Dropped) ->
          nth_error (upd j f (arbs s)) k = Some a' -> ph a = Dropped) as U.
  { intros f j Hf H. rewrite nth_upd in H. destruct (Nat.eqb_spec k j) as [<-|N]; rewrite E in H; cbn in H; inversion H; subst; auto. }
  assert (forall c b, ph (push c b) = Dropped -> ph b = Dropped) as HP by (intros c b; now rewrite ph_push).
  destruct l as [| j | j | | | j]; cbn [step] in E'.
  - left. unfold coord in E'. destruct (rest s) as [|o ops']; [congruence|]. destruct o; cbn in E'; unfold send_op, wait_op in E';
      repeat match type of E' with context [if ?c then _ else _] => destruct c end; cbn in E'; try congruence;
      try (eapply U; [|exact E']; apply HP).
    rewrite nth_error_app1 in E' by (apply nth_error_Some; congruence). congruence.
  - left. cbn in E'. eapply U; [|exact E']. intros b. unfold runner. destruct (ph b) eqn:X; try (intros; congruence).
    destruct (chan b) as [|[|t] c]; cbn; intros; congruence.
  - left. unfold task_step in E'. destruct (nth_error (arbs s) j) as [b|] eqn:Eb; [|congruence].
    destruct (ph b) eqn:Pb; try congruence. destruct (lq b) eqn:Lb; [congruence|].
    assert (forall b0, ph (start_task b0) = Dropped -> ph b0 = Dropped) as HS.
    { intros b0. destruct (start_fields b0) as (_ & _ & _ & F). now rewrite F. }
    destruct (tkind t); cbn in E'; rewrite ?upd_upd in E'; (eapply U; [|exact E']); auto.
    intros b0 X. apply HS. eapply HP; eauto.
  - left. unfold sys_step in E'. destruct (alive s); [|congruence]. destruct (sysq s) as [|[c|r|d] q]; cbn in E'; try congruence.
    rewrite stop_all_nth, E in E'. cbn in E'. inversion E'; subst a'.
    destruct (iter_fields (count_occ Nat.eq_dec (reg s) k) a) as [_ F]. congruence.
  - left. unfold sys_ret in E'. destruct (alive s); [|congruence]. destruct (exitc s); cbn in E'; congruence.
  - unfold drop_step in E'. destruct (nth_error (arbs s) j) as [b|] eqn:Eb; [|left; congruence].
    destruct (ph b) eqn:Pb; try (left; congruence). cbn in E'. rewrite nth_upd in E'.
    destruct (Nat.eqb_spec k j) as [->|N]; [|left; congruence]. right. rewrite E in Eb. inversion Eb; subst b. auto.
Qed.

(* ---- C09 ---- *)
Lemma code_run : forall ops sched c, ret (run ops sched) = Some c ->
  exitc (run ops sched) = Some c /\ alive (run ops sched) = false.
Proof.
  intros ops sched c H. pose proof (gi_ret _ (GInv_run ops sched)) as R. rewrite H in R.
  destruct (alive (run ops sched)); [discriminate|]. auto.
Qed.

(* the one-shot: the code of the first Exit processed is kept, later Exits do not change it *)
Lemma exit_first_wins : forall s l c, exitc s = Some c -> exitc (step s l) = Some c.
Proof.
  intros s l c H. destruct l as [| j | j | | | j]; cbn [step].
  - unfold coord. destruct (rest s) as [|o ops']; auto. destruct o; cbn; unfold send_op, wait_op;
      repeat match goal with |- context [if ?c then _ else _] => destruct c end; cbn; auto.
  - auto.
  - unfold task_step. destruct (nth_error (arbs s) j); auto. destruct (ph a); auto. destruct (lq a); auto. destruct (tkind t); auto.
  - unfold sys_step. destruct (alive s); auto. destruct (sysq s) as [|[c0|r|d] q]; cbn; auto. now rewrite H.
  - unfold sys_ret. destruct (alive s); auto. rewrite H. cbn. auto.
  - unfold drop_step. destruct (nth_error (arbs s) j); auto. destruct (ph a); auto.
Qed.

Lemma exit_processed : forall s c q, alive s = true -> sysq s = Exit c :: q -> exitc s = None ->
  exitc (step s LSys) = Some c /\ (forall k, In k (reg s) -> forall a, nth_error (arbs (step s LSys)) k = Some a -> stopping a).
Proof.
  intros s c q A Q X. cbn [step]. unfold sys_step. rewrite A, Q. cbn. rewrite X. split; auto.
  intros k Hk a Ha. rewrite stop_all_nth in Ha. destruct (nth_error (arbs s) k); [|discriminate]. inversion Ha.
  apply stopping_iter_pos. now apply count_occ_In.
Qed.

Lemma exit_only_by_sys : forall s l, exitc s = None -> exitc (step s l) <> None ->
  l = LSys /\ exists c q, sysq s = Exit c :: q /\ alive s = true /\ exitc (step s l) = Some c.
Proof.
  intros s l X H. destruct l as [| j | j | | | j]; cbn [step] in *.
  - exfalso. apply H. unfold coord. destruct (rest s) as [|o ops']; auto. destruct o; cbn; unfold send_op, wait_op;
      repeat match goal with |- context [if ?c then _ else _] => destruct c end; cbn; auto.
  - exfalso. apply H. auto.
  - exfalso. apply H. unfold task_step. destruct (nth_error (arbs s) j); auto. destruct (ph a); auto. destruct (lq a); auto. destruct (tkind t); auto.
  - split; auto. unfold sys_step in *. destruct (alive s); [|congruence]. destruct (sysq s) as [|[c0|r|d] q]; cbn in *; try congruence.
    rewrite X. eauto.
  - exfalso. apply H. unfold sys_ret. destruct (alive s); auto. rewrite X. auto.
  - exfalso. apply H. unfold drop_step. destruct (nth_error (arbs s) j); auto. destruct (ph a); auto.
Qed.

Lemma run_maps : run_view true 0 = VOk /\ (forall c, c <> 0%Z -> run_view true c = VErr) /\ (forall c, run_view false c = VCode c).
Proof.
  split; [reflexivity|]. split; [|reflexivity]. intros c H. unfold run_view. destruct (Z.eqb_spec c 0); congruence.
Qed.

(* every arbiter created before an Exit was issued is stopping in every state after an Exit has been processed *)
Lemma stops_all_run : forall ops sched k a, nth_error (arbs (run ops sched)) k = Some a -> a_pre a = true ->
  exitc (run ops sched) <> None -> stopping a.
Proof.
  intros ops sched k a H Hp X. pose proof (GInv_run ops sched) as G.
  assert (issued (run ops sched) = true) as Is.
  { destruct (issued (run ops sched)) eqn:I; auto. destruct (g_iss _ G I) as (_ & B & _). congruence. }
  destruct (g_doom _ G k a H Hp Is) as [D|(_ & D & _)]; [auto | congruence].
Qed.

(* ---- the variant: position of the first Stop in the channel ---- *)
Fixpoint stop_pos (l : list cmd) : nat :=
  match l with
  | [] => 0
  | Stop :: _ => 0
  | _ :: t => S (stop_pos t)
  end.

(* while an arbiter is Running and its channel is non-empty the Runner label is enabled; if a Stop is
   queued every Runner step brings it strictly closer, and at distance 0 the loop ends *)
Lemma runner_variant : forall a, ph a = Running -> has_stop (chan a) = true ->
  runner a <> a /\
  ((stop_pos (chan a) = 0 /\ ph (runner a) = Ended) \/
   (ph (runner a) = Running /\ has_stop (chan (runner a)) = true /\ S (stop_pos (chan (runner a))) = stop_pos (chan a))).
Proof.
  intros a P H. unfold runner. rewrite P. destruct (chan a) as [|[|t] c] eqn:C; cbn in *; try discriminate.
  - split; [|left; auto]. intros X. apply (f_equal ph) in X. cbn in X. congruence.
  - split; [|right; auto]. intros X. apply (f_equal chan) in X. cbn in X. rewrite C in X.
    apply (f_equal (@length _)) in X. cbn in X. lia.
Qed.

Lemma runner_enabled : forall a, ph a = Running -> chan a <> [] -> runner a <> a.
Proof.
  intros a P H. unfold runner. rewrite P. destruct (chan a) as [|[|t] c] eqn:C; [congruence| |].
  - intros X. apply (f_equal ph) in X. cbn in X. congruence.
  - intros X. apply (f_equal chan) in X. cbn in X. rewrite C in X. apply (f_equal (@length _)) in X. cbn in X. lia.
Qed.

(* nobody else moves the first Stop away: sends append behind it, tasks do not touch the channel *)
Lemma stop_pos_app : forall l c, has_stop l = true -> stop_pos (l ++ [c]) = stop_pos l /\ has_stop (l ++ [c]) = true.
Proof.
  induction l as [|[|x] l IH]; intros c H; cbn in *; try discriminate; auto.
  destruct (IH c H) as [A B]. rewrite A. auto.
Qed.

Lemma variant_push : forall c a, has_stop (chan a) = true ->
  stop_pos (chan (push c a)) = stop_pos (chan a) /\ has_stop (chan (push c a)) = true.
Proof.
  intros c a H. unfold push. destruct (is_dropped (ph a)); cbn; auto. now apply stop_pos_app.
Qed.

Lemma variant_start : forall a, chan (start_task a) = chan a.
Proof. intros. unfold start_task. destruct (ph a); auto. destruct (lq a); auto. Qed.

(* under the fairness assumption (a watchdog only fires at quiescence) a stopping arbiter has ended and its
   thread has finished, so join returns: the model never logs a hang for it *)
Lemma stopping_quiescent_dropped : forall s k a, quiescent s = true -> nth_error (arbs s) k = Some a ->
  stopping a -> ph a = Dropped.
Proof.
  intros s k a Q E St. destruct (ph a) eqn:P; auto; exfalso;
    apply (quiescent_not_stopping s k a Q E); auto; congruence.
Qed.

Lemma join_returns : forall s k ops' a, rest s = OJoin k :: ops' -> nth_error (arbs s) k = Some a -> stopping a ->
  step s LCoord = s \/ olog (step s LCoord) = olog s ++ [RJoined].
Proof.
  intros s k ops' a R E St. cbn [step]. unfold coord. rewrite R. unfold wait_op. rewrite E.
  destruct (ph a) eqn:P; cbn; auto; destruct (quiescent s) eqn:Q; auto;
    rewrite (stopping_quiescent_dropped s k a Q E St) in P; discriminate.
Qed.

(* covered arbiters are joinable after a direct stop: combination of the two *)
Lemma join_after_exit_run : forall ops sched k ops' a,
  let s := run ops sched in
  rest s = OJoin k :: ops' -> nth_error (arbs s) k = Some a -> a_pre a = true -> exitc s <> None ->
  step s LCoord = s \/ olog (step s LCoord) = olog s ++ [RJoined].
Proof.
  intros ops sched k ops' a s R E Hp X. eapply join_returns; eauto. eapply stops_all_run; eauto.
Qed.

(* ---- deregistration ---- *)
Lemma dereg_sent : forall s k a, nth_error (arbs s) k = Some a -> ph a = Ended -> alive s = true ->
  sysq (step s (LDrop k)) = sysq s ++ [Deregister k] /\
  (exists a', nth_error (arbs (step s (LDrop k))) k = Some a' /\ ph a' = Dropped).
Proof.
  intros s k a E P A. cbn [step]. unfold drop_step. rewrite E, P. cbn. unfold sys_send. rewrite A. split; auto.
  rewrite nth_upd_same, E. cbn. eauto.
Qed.

Lemma dereg_processed : forall s k q, alive s = true -> sysq s = Deregister k :: q ->
  ~ In k (reg (step s LSys)) /\ arbs (step s LSys) = arbs s /\ exitc (step s LSys) = exitc s.
Proof.
  intros s k q A Q. cbn [step]. unfold sys_step. rewrite A, Q. cbn. split; auto.
  intros X. apply in_remove_nat in X. destruct X. congruence.
Qed.

(* stopping an arbiter that is not registered, or whose receiver is gone, is a no-op *)
Lemma stop_all_unregistered : forall ids l k, ~ In k ids -> nth_error (stop_all ids l) k = nth_error l k.
Proof.
  intros ids l k H. rewrite stop_all_nth. rewrite (proj1 (count_occ_not_In Nat.eq_dec ids k) H). cbn.
  destruct (nth_error l k); auto.
Qed.

Lemma stop_gone_noop : forall a, ph a = Dropped -> push Stop a = a.
Proof. intros. now apply push_dropped. Qed.

(* an ended arbiter starts nothing any more, whatever is sent to it *)
Lemma ended_starts_nothing : forall a, ph a <> Running -> start_task a = a /\ runner a = a.
Proof. intros a H. unfold start_task, runner. destruct (ph a); try congruence; auto. Qed.
