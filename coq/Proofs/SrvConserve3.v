(* Proofs/SrvConserve3.v — C01, part 3: the statements Props/C01.v closes with `exact`
   (conservation, exactly-once dispatch, routing by listener token, no silent drop). *)
From Coq Require Import List Arith ZArith NArith Bool Lia Permutation.
From AN Require Import Model.Srv Proofs.ListFacts Proofs.SrvConserve Proofs.SrvConserve2.
Import ListNotations.

(* ---------- what a script says about connections ---------- *)
(* every (listener token, connection id) of a Connect op of the script, also inside yield schedules *)
Definition script_conns (os : list op) : list (nat * N) := ys_conns (script_ys os).
Definition script_cids (os : list op) : list N := map snd (script_conns os).

Fixpoint nodupb (l : list N) : bool :=
  match l with [] => true | x :: t => negb (existsb (N.eqb x) t) && nodupb t end.

(* connection ids are pairwise distinct (a connection id names one client socket) *)
Definition fresh_cids (os : list op) : bool := nodupb (script_cids os).

(* the listener an id was connected to *)
Definition home (os : list op) (c : N) : option nat :=
  match find (fun p => N.eqb (snd p) c) (script_conns os) with Some p => Some (fst p) | None => None end.

(* ids of the Connect ops that certainly ran: top level, existing listener *)
Definition top_connected (nl : nat) (os : list op) : list N :=
  flat_map (fun o => match o with E (Connect tok c) => if Nat.ltb tok nl then [c] else [] | _ => [] end) os.

Definition no_kill (os : list op) : bool := nk_ys (script_ys os).
Definition ys_no_connect (os : list op) : bool :=
  forallb (fun o => match o with E _ => true | _ => match ys_conns (op_ys o) with [] => true | _ => false end end) os.

Definition valid_conns (nl : nat) (os : list op) : list (nat * N) :=
  filter (fun p => Nat.ltb (fst p) nl) (script_conns os).

Lemma nodupb_NoDup l : nodupb l = true -> NoDup l.
Proof.
  induction l as [|x t IH]; cbn [nodupb]; intros H; [constructor|].
  apply andb_true_iff in H as [H1 H2]. constructor; [|auto].
  intros Hin. apply negb_true_iff in H1. assert (existsb (N.eqb x) t = true); [|congruence].
  apply existsb_exists. exists x. split; [exact Hin|apply N.eqb_refl].
Qed.

Lemma fresh_cnt os c : fresh_cids os = true -> yc c (script_ys os) <= 1.
Proof.
  intros H. apply nodupb_NoDup in H. unfold script_cids, script_conns in H.
  apply (proj1 (NoDup_cnt _) H).
Qed.

Lemma ys_ok_all nl Q ys :
  (forall tok c, In (tok, c) (ys_conns ys) -> tok < nl -> In (tok, c) Q) -> ys_ok nl Q ys.
Proof.
  intros H. unfold ys_ok. apply Forall_forall. intros y Hy. apply Forall_forall. intros o Ho.
  destruct o; cbn; try exact I. intros Ht. apply H; [|exact Ht].
  unfold ys_conns. apply in_flat_map. exists y. split; [exact Hy|]. apply in_flat_map.
  eexists. split; [exact Ho|]. cbn. now left.
Qed.

Lemma ys_ok_script nl os : ys_ok nl (valid_conns nl os) (script_ys os).
Proof.
  apply ys_ok_all. intros tok c Hin Ht. unfold valid_conns. apply filter_In. split; [exact Hin|].
  cbn. now apply Nat.ltb_lt.
Qed.

Lemma valid_conns_in nl os tok c : In (tok, c) (valid_conns nl os) -> In (tok, c) (script_conns os) /\ tok < nl.
Proof. unfold valid_conns. intros H. apply filter_In in H as [H1 H2]. cbn [fst] in H2. split; [exact H1|now apply Nat.ltb_lt]. Qed.

Lemma home_unique os tok c : NoDup (script_cids os) -> In (tok, c) (script_conns os) -> home os c = Some tok.
Proof.
  unfold home, script_cids. induction (script_conns os) as [|[t0 c0] r IH]; intros Hnd Hin; [destruct Hin|].
  cbn [map snd] in Hnd. inversion Hnd as [|? ? Hni Hnd']; subst. cbn [find snd].
  destruct (N.eqb_spec c0 c) as [->|Hne].
  - destruct Hin as [E|Hin]; [now injection E as ->|].
    exfalso. apply Hni. apply in_map_iff. exists (tok, c). auto.
  - destruct Hin as [E|Hin]; [injection E as _ E; congruence|]. auto.
Qed.

(* ---------- reachable states ---------- *)
Section Reach.
Variable L : Z.
Variable W : nat.
Variable kinds : list bool.
Variable os : list op.

Let nl := length kinds.
Let P := valid_conns nl os.
Let st := run L (init W kinds) os.

Lemma reach_post : Post nl P [] [] (init W kinds) (script_ys os) st [].
Proof. apply run_post. Qed.

Lemma reach_sinv : SInv nl P st.
Proof.
  destruct reach_post as (H & _ & _). destruct H as (HI & _); [|exact HI].
  split; [apply init_sinv; reflexivity|]. split; [apply ys_ok_script|constructor].
Qed.

Lemma reach_cnt c : tot c st <= yc c (script_ys os) /\ und c st <= yc c (script_ys os).
Proof.
  destruct reach_post as (_ & _ & H). destruct (H c) as (H1 & H2 & _).
  destruct (init_tot W kinds c) as [E1 E2]. rewrite E1, E2, yc_nil in *. unfold hc in *. cbn [map] in *.
  rewrite cnt_nil in *. lia.
Qed.

Lemma reach_nofault : no_kill os = true -> AllOpen st /\ NoFault (trace st).
Proof.
  intros Hk. destruct reach_post as (_ & H & _). destruct H as (_ & HA & HF); [|auto].
  split; [exact Hk|]. split; [apply init_allopen|constructor].
Qed.

End Reach.

Lemma SInv_places_known nl Q st c : SInv nl Q st -> In c (places st) -> known Q c.
Proof.
  intros (_ & I2 & I3 & I4) Hin. unfold places in Hin.
  apply in_app_or in Hin as [Hin|Hin]; [|apply in_app_or in Hin as [Hin|Hin]; [|apply in_app_or in Hin as [Hin|Hin]]].
  - unfold backlog_ids in Hin. apply in_concat in Hin as (b & Hb & Hc).
    apply In_nth_error in Hb as (tok & Hb). exists tok. eapply I2; eassumption.
  - unfold queued in Hin. apply in_flat_map in Hin as (w & Hw & Hc). apply in_map_iff in Hc as (x & <- & Hx).
    apply In_nth_error in Hw as (g & Hg). exists (c_tok x).
    destruct (I3 g w x Hg) as [Hh _]; [apply in_or_app; now left|exact Hh].
  - unfold picked in Hin. apply in_flat_map in Hin as (w & Hw & Hc). apply in_map_iff in Hc as (x & <- & Hx).
    apply In_nth_error in Hw as (g & Hg). exists (c_tok x).
    destruct (I3 g w x Hg) as [Hh _]; [apply in_or_app; now right|exact Hh].
  - unfold gone, gone_of in Hin. apply in_flat_map in Hin as (e & He & Hc).
    rewrite Forall_forall in I4. specialize (I4 e He).
    destruct e; cbn in Hc, I4; try contradiction; destruct Hc as [<-|[]]; try exact I4.
    eexists; exact I4.
Qed.

(* a Connect to an existing listener puts the id somewhere *)
Lemma connect_enters L st tok c : tok < length (lsts st) -> 1 <= tot c (env_step L st (Connect tok c)).
Proof.
  intros Ht. cbn [env_step]. destruct (nth_error (lsts st) tok) as [l|] eqn:El; [|apply nth_error_None in El; lia].
  destruct (l_uds l && negb (l_linked l)).
  - destruct (tot_change c st (emit st (EvConnFail c tok)) [EvConnFail c tok] eq_refl eq_refl eq_refl) as [-> _].
    cbn [gone_of flat_map ev_gone app]. rewrite cnt_one_eq. lia.
  - match goal with |- context [upd_lst st tok ?l0] => set (l' := l0) end.
    destruct (tot_upd_bl c st (upd_lst st tok l') tok _ _ (bl_nth _ _ _ El) (bl_upd_lst st tok l') eq_refl eq_refl) as [H1 _].
    cbn [l' l_backlog] in H1. rewrite cnt_app, cnt_one_eq in H1. lia.
Qed.

(* ---------- C01_conservation ---------- *)
Theorem conservation (L : Z) W kinds os :
  fresh_cids os = true ->
  let st := run L (init W kinds) os in
  NoDup (places st) /\
  (forall c, In c (places st) -> exists tok, In (tok, c) (script_conns os) /\ tok < length kinds) /\
  (err st = None -> forall c, In c (top_connected (length kinds) os) -> In c (places st)).
Proof.
  intros Hf st. split; [|split].
  - apply NoDup_cnt. intros c. rewrite tot_places.
    pose proof (reach_cnt L W kinds os c) as [H _]. pose proof (fresh_cnt os c Hf). fold st in H. lia.
  - intros c Hc. destruct (SInv_places_known _ _ _ _ (reach_sinv L W kinds os) Hc) as (tok & Ht).
    exists tok. now apply valid_conns_in.
  - intros He c Hc. unfold top_connected in Hc. apply in_flat_map in Hc as (o & Ho & Hc).
    destruct o as [e| | | | |]; try destruct Hc. destruct e as [tok c0| | | | | | |]; try destruct Hc.
    destruct (Nat.ltb_spec tok (length kinds)) as [Ht|]; [|destruct Hc]. destruct Hc as [<-|[]].
    apply in_split in Ho as (os1 & os2 & ->).
    unfold st, run in *. rewrite fold_left_app in *. cbn [fold_left step] in *.
    set (st1 := fold_left (step L) os1 (init W kinds)) in *.
    pose proof (reach_sinv L W kinds os1) as (Hl & _). fold (run L (init W kinds) os1) in st1. fold st1 in Hl.
    unfold bl in Hl. rewrite map_length in Hl.
    pose proof (connect_enters L st1 tok c0 ltac:(lia)) as H1.
    destruct (run_post L 0 [] os2 (env_step L st1 (Connect tok c0))) as (_ & _ & HR).
    destruct (HR c0) as (_ & _ & H2). destruct (H2 He) as [_ H3]. unfold hc in H3. cbn [map] in H3. rewrite cnt_nil in H3.
    apply cnt_In. rewrite tot_places. unfold run in H3. lia.
Qed.

(* once somewhere, always somewhere: an id leaves a backlog/queue/picked list only into another place,
   the last resort being an explicit event (as long as the accept loop has not panicked) *)
Theorem stays (L : Z) st os c :
  err (run L st os) = None -> In c (places st) -> In c (places (run L st os)).
Proof.
  intros He Hc. destruct (run_post L 0 [] os st) as (_ & _ & HR). destruct (HR c) as (_ & _ & H2).
  destruct (H2 He) as [_ H3]. unfold hc in H3. cbn [map] in H3. rewrite cnt_nil in H3.
  apply cnt_In in Hc. apply cnt_In. rewrite tot_places in *. lia.
Qed.

(* scripts whose yield schedules connect nobody: the places are exactly the connected ids *)
Lemma no_connect_conns os : ys_no_connect os = true ->
  forall tok c, In (tok, c) (script_conns os) -> In (E (Connect tok c)) os.
Proof.
  unfold script_conns, script_ys, ys_no_connect. induction os as [|o r IH]; intros H tok c Hin; [destruct Hin|].
  cbn [forallb] in H. apply andb_true_iff in H as [Ho Hr]. cbn [flat_map] in Hin.
  unfold ys_conns in Hin. rewrite flat_map_app in Hin. apply in_app_or in Hin as [Hin|Hin].
  - left. destruct o as [e|t ys|ys| |ys|ms]; cbn [op_ys] in *.
    + cbn in Hin. rewrite app_nil_r in Hin. destruct e; cbn in Hin; try destruct Hin as [|[]]; try contradiction. congruence.
    + unfold ys_conns in Ho. destruct (flat_map (flat_map eop_conns) ys); [destruct Hin|discriminate].
    + unfold ys_conns in Ho. destruct (flat_map (flat_map eop_conns) ys); [destruct Hin|discriminate].
    + destruct Hin.
    + unfold ys_conns in Ho. destruct (flat_map (flat_map eop_conns) ys); [destruct Hin|discriminate].
    + destruct Hin.
  - right. apply IH; assumption.
Qed.

Theorem conservation_exact (L : Z) W kinds os :
  fresh_cids os = true -> ys_no_connect os = true ->
  let st := run L (init W kinds) os in
  err st = None -> Permutation (places st) (top_connected (length kinds) os).
Proof.
  intros Hf Hy st He. destruct (conservation L W kinds os Hf) as (H1 & H2 & H3). fold st in H1, H2, H3.
  assert (Hin : forall c, In c (places st) -> In c (top_connected (length kinds) os)).
  { intros c Hc. destruct (H2 c Hc) as (tok & Ht & Hlt). pose proof (no_connect_conns os Hy tok c Ht) as Ho.
    unfold top_connected. apply in_flat_map. exists (E (Connect tok c)). split; [exact Ho|].
    apply Nat.ltb_lt in Hlt. rewrite Hlt. now left. }
  apply NoDup_Permutation; [exact H1| |intros c; split; [apply Hin|apply (H3 He)]].
  (* the top-level ids are a sub-list of the fresh script ids *)
  apply nodupb_NoDup in Hf. apply NoDup_cnt. intros c.
  assert (G : forall l, cnt c (top_connected (length kinds) l) <= cnt c (script_cids l)).
  { unfold top_connected, script_cids, script_conns, script_ys. induction l as [|o r IH]; [cbn; lia|].
    cbn [flat_map]. unfold ys_conns in *. rewrite flat_map_app, map_app, !cnt_app.
    assert (cnt c (match o with E (Connect tok c0) => if Nat.ltb tok (length kinds) then [c0] else [] | _ => [] end)
            <= cnt c (map snd (flat_map (flat_map eop_conns) (op_ys o)))); [|lia].
    destruct o as [e| | | | |]; try (rewrite cnt_nil; lia). destruct e; try (rewrite cnt_nil; lia).
    cbn [op_ys flat_map eop_conns map snd app]. destruct (Nat.ltb tok (length kinds)); [lia|rewrite cnt_nil; lia]. }
  pose proof (G os). pose proof (proj1 (NoDup_cnt _) Hf c). lia.
Qed.

(* ---------- C01_once ---------- *)
Lemma disp_unique tr c : cnt c (disp_of tr) <= 1 ->
  forall e1 e2, In e1 tr -> In e2 tr -> ev_disp e1 = [c] -> ev_disp e2 = [c] -> e1 = e2.
Proof.
  induction tr as [|e r IH]; intros Hc e1 e2 H1 H2 D1 D2; [destruct H1|].
  unfold disp_of in *. cbn [flat_map] in Hc. rewrite cnt_app in Hc.
  assert (Hr : forall e0, In e0 r -> ev_disp e0 = [c] -> 1 <= cnt c (flat_map ev_disp r)).
  { intros e0 Hin Hd. apply cnt_In. apply in_flat_map. exists e0. split; [exact Hin|]. rewrite Hd. now left. }
  destruct H1 as [<-|H1], H2 as [<-|H2].
  - reflexivity.
  - exfalso. rewrite D1, cnt_one_eq in Hc. specialize (Hr _ H2 D2). lia.
  - exfalso. rewrite D2, cnt_one_eq in Hc. specialize (Hr _ H1 D1). lia.
  - apply IH; auto. lia.
Qed.

Theorem once (L : Z) W kinds os :
  fresh_cids os = true ->
  let st := run L (init W kinds) os in
  (* at most one dispatch event per connection id *)
  (forall c, cnt c (disp st) <= 1) /\
  (forall c tok g idx n tok' g' idx' n',
     In (EvDispatch c tok g idx n) (trace st) -> In (EvDispatch c tok' g' idx' n') (trace st) ->
     tok' = tok /\ g' = g /\ idx' = idx /\ n' = n) /\
  (* a connection held by worker generation g was dispatched to g (hence to nobody else), with its token *)
  (forall g w x, nth_error (ws st) g = Some w -> In x (w_queue w ++ w_picked w) ->
     exists n, In (EvDispatch (c_id x) (c_tok x) g (w_idx w) n) (trace st)).
Proof.
  intros Hf st.
  assert (H1 : forall c, cnt c (disp st) <= 1).
  { intros c. pose proof (reach_cnt L W kinds os c) as [_ H]. pose proof (fresh_cnt os c Hf). fold st in H.
    unfold und in H. lia. }
  split; [exact H1|]. split.
  - intros c tok g idx n tok' g' idx' n' Ha Hb.
    pose proof (disp_unique (trace st) c (H1 c) _ _ Ha Hb eq_refl eq_refl) as E. injection E as -> -> -> ->. auto.
  - intros g w x Hg Hx. pose proof (reach_sinv L W kinds os) as (_ & _ & I3 & _). fold st in I3.
    destruct (I3 g w x Hg Hx) as [_ H]. exact H.
Qed.

(* ---------- C01_routing ---------- *)
Theorem routing (L : Z) W kinds os :
  fresh_cids os = true ->
  let st := run L (init W kinds) os in
  (* in a listener's accept queue: ids connected to that listener *)
  (forall tok l c, nth_error (lsts st) tok = Some l -> In c (l_backlog l) -> home os c = Some tok) /\
  (* at a worker: the token the connection carries is the listener it was connected to *)
  (forall g w x, nth_error (ws st) g = Some w -> In x (w_queue w ++ w_picked w) ->
     home os (c_id x) = Some (c_tok x) /\ c_tok x < length kinds) /\
  (* every dispatch event carries the connection's listener *)
  (forall c tok g idx n, In (EvDispatch c tok g idx n) (trace st) -> home os c = Some tok /\ tok < length kinds).
Proof.
  intros Hf st. pose proof (reach_sinv L W kinds os) as (_ & I2 & I3 & I4). fold st in I2, I3, I4.
  pose proof (nodupb_NoDup _ Hf) as Hnd.
  assert (G : forall tok c, In (tok, c) (valid_conns (length kinds) os) -> home os c = Some tok /\ tok < length kinds).
  { intros tok c H. apply valid_conns_in in H as [H Ht]. split; [now apply home_unique|exact Ht]. }
  split; [|split].
  - intros tok l c Hl Hc. apply G. eapply I2; [apply bl_nth; exact Hl|exact Hc].
  - intros g w x Hg Hx. apply G. destruct (I3 g w x Hg Hx) as [H _]. exact H.
  - intros c tok g idx n Hin. apply G. rewrite Forall_forall in I4. exact (I4 _ Hin).
Qed.

(* ---------- C01_no_silent_drop ---------- *)
Theorem no_kill_no_fault (L : Z) W kinds os :
  no_kill os = true ->
  let st := run L (init W kinds) os in
  (forall g w, nth_error (ws st) g = Some w -> w_open w = true) /\
  (forall e, In e (trace st) -> match e with EvLost _ | EvDropNoWorker _ | EvFaulted _ => False | _ => True end).
Proof.
  intros Hk st. destruct (reach_nofault L W kinds os Hk) as [HA HF]. fold st in HA, HF. split; [exact HA|].
  intros e He. unfold NoFault in HF. rewrite Forall_forall in HF. specialize (HF e He). destruct e; cbn in HF; try exact I; discriminate.
Qed.
