//! tiny S-expression reader (same grammar as the OCaml driver)
#[derive(Debug, Clone)]
pub enum Sx {
    Atom(String),
    List(Vec<Sx>),
}
impl Sx {
    pub fn atom(&self) -> &str {
        match self {
            Sx::Atom(s) => s,
            Sx::List(_) => panic!("atom expected"),
        }
    }
    pub fn list(&self) -> &[Sx] {
        match self {
            Sx::List(l) => l,
            Sx::Atom(_) => panic!("list expected"),
        }
    }
}

fn tokenize(s: &str) -> Vec<String> {
    let mut out = Vec::new();
    let mut cur = String::new();
    for c in s.chars() {
        match c {
            '(' | ')' => {
                if !cur.is_empty() {
                    out.push(std::mem::take(&mut cur));
                }
                out.push(c.to_string());
            }
            ' ' | '\t' => {
                if !cur.is_empty() {
                    out.push(std::mem::take(&mut cur));
                }
            }
            c => cur.push(c),
        }
    }
    if !cur.is_empty() {
        out.push(cur);
    }
    out
}

fn one(t: &[String], i: &mut usize) -> Sx {
    let tok = &t[*i];
    *i += 1;
    if tok == "(" {
        let mut l = Vec::new();
        while t[*i] != ")" {
            l.push(one(t, i));
        }
        *i += 1;
        Sx::List(l)
    } else {
        assert!(tok != ")", "unexpected )");
        Sx::Atom(tok.clone())
    }
}

pub fn parse(s: &str) -> Sx {
    let t = tokenize(s);
    let mut i = 0;
    let x = one(&t, &mut i);
    assert!(i == t.len(), "trailing tokens");
    x
}
