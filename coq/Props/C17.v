(* Props/C17.v — actix-utils Counter + LocalWaker: capacity gate with a guaranteed wake on release.
   ONLY statements, each closed by `exact <lemma>`, non-vacuity Examples, Print Assumptions.
   All theorems quantify over every capacity (0 included) and every op script of any length;
   `Acquire` never checks the capacity (over-acquisition is inside the quantifier); an op on a
   dead guard is not executed. *)
From AN Require Import Model.Counter Proofs.CounterFacts.

(* In every reachable state: total() = number of live guards, and available() answers
   (live guards < capacity). *)
Theorem C17_available_state : forall cap s w,
  let st := ctr_exec (ctr_init cap) s in
  counter_total (inner st) = N.of_nat (live (guards st))
  /\ snd (counter_available (inner st) w) = (N.of_nat (live (guards st)) <? cap)%N.
Proof. exact reachable_available_total. Qed.

(* The same as a predicate over the observable trace (the monitor clause): every `Available`
   answers (live < capacity) and total() read after every op equals the number of live guards,
   where "live" is computed from the script alone. *)
Theorem C17_available : forall cap s, available_ok cap s (ctr_run cap s) = true.
Proof. exact available_holds. Qed.

(* A guard drop that takes the number of live guards from capacity to capacity-1 wakes the task
   most recently answered 'unavailable' (if it has not been woken since). *)
Theorem C17_wake : forall cap s, cwake_ok cap s (ctr_run cap s) = true.
Proof. exact cwake_holds. Qed.

(* Nothing else is ever woken: only such a drop wakes, exactly that waker, exactly once. *)
Theorem C17_wake_only : forall cap s, cwake_only_ok cap s (ctr_run cap s) = true.
Proof. exact cwake_only_holds. Qed.

(* `dec` (num - 1 on a usize) never runs at 0: while a guard is alive the count is positive. *)
Theorem C17_no_underflow : forall cap s g,
  let st := ctr_exec (ctr_init cap) s in
  alive (guards st) g = true -> (0 < count (inner st))%N.
Proof. exact no_underflow. Qed.

(* While the counter is below capacity no waker is left registered. *)
Theorem C17_no_stale_waker : forall cap s,
  let st := ctr_exec (ctr_init cap) s in
  (count (inner st) < cap)%N -> task (inner st) = None.
Proof. exact no_stale_waker. Qed.

(* LocalWaker: `register` reports whether a waker was registered, `wake` wakes the most recently
   registered waker exactly once (and nothing when none is registered), `take` returns and removes it. *)
Theorem C17_local_waker : forall s, C17_local_waker_ok s (lw_run s) = true.
Proof. exact local_waker_holds. Qed.

(* The conjunction used as the monitor on implementation traces. *)
Theorem C17_holds : forall cap s, C17_counter_ok cap s (ctr_run cap s) = true.
Proof. exact counter_holds. Qed.

(* ---- non-vacuity ---- *)
(* capacity 1, over-acquisition, two waiting tasks (only the later one is woken), dead guard *)
Example C17_example_run :
  ctr_run 1 [Acquire; Available 0; Acquire; Available 1; DropGuard 0; DropGuard 1; DropGuard 1; Available 0]
  = [CObs CUnit [] 1; CObs (CAvail false) [] 1; CObs CUnit [] 2; CObs (CAvail false) [] 2;
     CObs CUnit [] 1; CObs CUnit [1] 0; CObs CInvalid [] 0; CObs (CAvail true) [] 0].
Proof. vm_compute. reflexivity. Qed.
(* capacity 0 never becomes available and never wakes *)
Example C17_example_cap0 :
  ctr_run 0 [Available 0; Acquire; Available 1; DropGuard 0; Available 0]
  = [CObs (CAvail false) [] 0; CObs CUnit [] 1; CObs (CAvail false) [] 1; CObs CUnit [] 0; CObs (CAvail false) [] 0].
Proof. vm_compute. reflexivity. Qed.
(* the predicates are not trivially true: a lost wake-up, a spurious wake, `<=` instead of `<`
   and a wrong total are rejected *)
Example C17_rejects_lost_wake :
  cwake_ok 1 [Acquire; Available 0; DropGuard 0]
             [CObs CUnit [] 1; CObs (CAvail false) [] 1; CObs CUnit [] 0] = false.
Proof. vm_compute. reflexivity. Qed.
Example C17_rejects_spurious_wake :
  cwake_only_ok 1 [Acquire; Acquire; Available 0; DropGuard 0]
                  [CObs CUnit [] 1; CObs CUnit [] 2; CObs (CAvail false) [] 2; CObs CUnit [0] 1] = false.
Proof. vm_compute. reflexivity. Qed.
Example C17_rejects_le :
  available_ok 1 [Acquire; Available 0] [CObs CUnit [] 1; CObs (CAvail true) [] 1] = false.
Proof. vm_compute. reflexivity. Qed.
Example C17_rejects_total :
  available_ok 2 [Acquire; DropGuard 0] [CObs CUnit [] 1; CObs CUnit [] 1] = false.
Proof. vm_compute. reflexivity. Qed.
Example C17_example_local_waker :
  lw_run [Register 0; Register 1; Wake; Wake; Take; Register 0; Take]
  = [ORegister false; ORegister true; OWake [1]; OWake []; OTake None; ORegister false; OTake (Some 0)].
Proof. vm_compute. reflexivity. Qed.
Example C17_local_waker_rejects_stale :
  C17_local_waker_ok [Register 0; Register 1; Wake] [ORegister false; ORegister true; OWake [0]] = false.
Proof. vm_compute. reflexivity. Qed.

Print Assumptions C17_available_state.
Print Assumptions C17_available.
Print Assumptions C17_wake.
Print Assumptions C17_wake_only.
Print Assumptions C17_no_underflow.
Print Assumptions C17_no_stale_waker.
Print Assumptions C17_local_waker.
Print Assumptions C17_holds.
