(* Proofs/SrvFwdFacts.v — the server task (ServerInner::run / handle_cmd) forwards Pause and Resume commands to the accept
   thread in the order in which ServerHandle::pause / resume were called, each exactly once, until a stop ends the command loop:
     issued ops = forwarded (trace) ++ pending (command channel) ++ lost
   where `lost` is empty as long as the command loop has not ended.  (What the accept thread does with the forwarded sequence is
   Proofs/SrvStrand.v: commands_in_order / last_command_wins.) *)
From AN Require Import Model.SrvStop Proofs.SrvStopFacts.
From Coq Require Import List Lia.
Import ListNotations.

Definition issued (ops : list sop) : list bool :=
  flat_map (fun o => match o with UOther b => [b] | _ => [] end) ops.
Definition forwarded (tr : list sobs) : list bool :=
  flat_map (fun e => match e with OWakeOther b => [b] | _ => [] end) tr.
Definition pending (q : list cmd) : list bool :=
  flat_map (fun c => match c with COther b => [b] | _ => [] end) q.

Lemma forwarded_app a b : forwarded (a ++ b) = forwarded a ++ forwarded b.
Proof. unfold forwarded. apply flat_map_app. Qed.
Lemma pending_app a b : pending (a ++ b) = pending a ++ pending b.
Proof. unfold pending. apply flat_map_app. Qed.
Lemma issued_app a b : issued (a ++ b) = issued a ++ issued b.
Proof. unfold issued. apply flat_map_app. Qed.

Lemma forwarded_dropped q : forwarded (dropped_obs q) = [].
Proof.
  induction q as [|[c|b] q IH]; cbn; [reflexivity| |exact IH].
  unfold dropped_obs in *. cbn. destruct (sc_completion c); cbn; exact IH.
Qed.
Lemma forwarded_completion c : forwarded (completion_obs c) = [].
Proof. unfold completion_obs. destruct (sc_completion c); reflexivity. Qed.
Lemma forwarded_stop_events W g : forwarded (OWakeStop :: map (fun i => OWorkerStop i g) (seq 0 W)) = [].
Proof. cbn. generalize (seq 0 W). induction l as [|x l IH]; cbn; [reflexivity | exact IH]. Qed.
Lemma forwarded_join_poll : forall res aks i res' o, join_poll i res aks = (res', o) -> forwarded o = [].
Proof.
  induction res as [|r rt IH]; intros aks i res' o H; cbn [join_poll] in H.
  - inversion H; reflexivity.
  - destruct aks as [|a at_]; [inversion H; reflexivity|].
    destruct (join_poll (S i) rt at_) as [rt' o'] eqn:E. apply IH in E.
    destruct r; [|destruct a]; inversion H; subst; cbn; auto.
Qed.

(* one control step: what is forwarded is taken from the head of the pending commands; nothing is lost unless the loop ends *)
Lemma forwarded_cons_other e l : (forall b, e <> OWakeOther b) -> forwarded (e :: l) = forwarded l.
Proof. intros H. destruct e; try reflexivity. exfalso. eapply H; reflexivity. Qed.

Ltac fwd_simpl :=
  repeat (rewrite ?forwarded_app, ?forwarded_completion, ?forwarded_dropped, ?forwarded_stop_events, ?app_nil_r;
          try (rewrite forwarded_cons_other by (intros ?; discriminate))).

Lemma spoll_fwd : forall cf s s' o, spoll cf s = (s', o) ->
  exists lost, pending (cmdq s) = forwarded o ++ pending (cmdq s') ++ lost /\
               (is_done (ctl s') = false -> lost = []).
Proof.
  intros cf s s' o H. unfold spoll in H. destruct (ctl s) eqn:C.
  - (* SIdle *)
    destruct (if sig_armed s then pick_signal (sigs s) else None) as [k|].
    + unfold handle_stop in H. inversion H; subst; clear H. exists []. cbn [cmdq set_acks set_ctl].
      fwd_simpl. split; [reflexivity | auto].
    + destruct (cmdq s) as [|[c|b] q] eqn:Q.
      * inversion H; subst. exists []. rewrite Q. cbn. auto.
      * unfold handle_stop in H. inversion H; subst; clear H. exists []. cbn [cmdq set_acks set_ctl set_cmdq].
        fwd_simpl. cbn. auto.
      * inversion H; subst. exists []. cbn [cmdq set_cmdq]. fwd_simpl. cbn. auto.
  - (* SJoinAll *)
    destruct (join_poll 0 res (acks s)) as [res' o1] eqn:J. pose proof (forwarded_join_poll _ _ _ _ _ J) as F.
    destruct (join_results res'); inversion H; subst; exists []; cbn [cmdq set_ctl]; fwd_simpl; rewrite F; cbn;
      rewrite ?app_nil_r; auto.
  - (* SJoinAccept *)
    destruct (accept_exited s).
    + destruct (s_system_exit cf || sc_force c).
      * inversion H; subst. exists []. cbn [cmdq set_ctl]. fwd_simpl. cbn. auto.
      * unfold finish_srv in H. inversion H; subst. exists (pending (cmdq s)).
        cbn [cmdq set_cmdq set_ctl ctl]. fwd_simpl. cbn. split; [reflexivity | discriminate].
    + inversion H; subst. exists []. fwd_simpl. cbn. auto.
  - (* SSleep *)
    destruct (timer_fired s).
    + unfold finish_srv in H. inversion H; subst. exists (pending (cmdq s)).
      cbn [cmdq set_cmdq set_ctl ctl]. fwd_simpl. cbn. split; [reflexivity | discriminate].
    + inversion H; subst. exists []. fwd_simpl. cbn. auto.
  - inversion H; subst. exists []. fwd_simpl. cbn. auto.
Qed.

Lemma is_done_spoll : forall cf s s' o, spoll cf s = (s', o) -> is_done (ctl s) = true -> s' = s /\ o = [].
Proof. intros cf s s' o H D. unfold spoll in H. destruct (ctl s); try discriminate. inversion H; auto. Qed.

Lemma srv_step_fwd : forall cf s o s' l, srv_step cf s o = (s', l) ->
  exists lost, pending (cmdq s) ++ issued [o] = forwarded l ++ pending (cmdq s') ++ lost /\
               (is_done (ctl s') = false -> lost = []).
Proof.
  intros cf s o s' l H. destruct o as [g|b|k|i b|i| | |]; cbn [srv_step] in H;
    try (inversion H; subst; exists []; cbn; rewrite ?app_nil_r; auto; fail).
  - (* UStop *)
    destruct (is_done (ctl s)) eqn:D; inversion H; subst; exists []; cbn [cmdq set_cmdq set_next issued flat_map forwarded app].
    + rewrite !app_nil_r. cbn. auto.
    + rewrite pending_app. cbn. rewrite !app_nil_r. auto.
  - (* UOther *)
    destruct (is_done (ctl s)) eqn:D; inversion H; subst.
    + exists [b]. cbn. split; [reflexivity|]. intros E. congruence.
    + exists []. cbn [cmdq set_cmdq issued flat_map forwarded app]. rewrite pending_app. cbn. rewrite !app_nil_r. auto.
  - (* SPoll *)
    destruct (spoll_fwd cf s s' l H) as [lost [E L]]. exists lost. cbn. rewrite app_nil_r. auto.
Qed.

(* done is absorbing: nothing is forwarded or queued afterwards *)
Lemma srv_step_done : forall cf s o s' l, srv_step cf s o = (s', l) -> is_done (ctl s) = true ->
  is_done (ctl s') = true /\ forwarded l = [] /\ pending (cmdq s') = pending (cmdq s).
Proof.
  intros cf s o s' l H D. destruct o as [g|b|k|i b|i| | |]; cbn [srv_step] in H; rewrite ?D in H;
    try (inversion H; subst; cbn; auto; fail).
  destruct (is_done_spoll cf s s' l H D) as [-> ->]. auto.
Qed.

Lemma srv_run_fwd : forall cf ops s s' l, srv_run cf s ops = (s', l) ->
  exists lost, pending (cmdq s) ++ issued ops = forwarded l ++ pending (cmdq s') ++ lost /\
               (is_done (ctl s') = false -> lost = []).
Proof.
  induction ops as [|o t IH]; intros s s' l H; cbn [srv_run] in H.
  - inversion H; subst. exists []. cbn. rewrite !app_nil_r. auto.
  - destruct (srv_step cf s o) as [s1 l1] eqn:E1. destruct (srv_run cf s1 t) as [s2 l2] eqn:E2. inversion H; subst; clear H.
    destruct (srv_step_fwd _ _ _ _ _ E1) as [lost1 [F1 L1]]. destruct (IH _ _ _ E2) as [lost2 [F2 L2]].
    change (o :: t) with ([o] ++ t). rewrite issued_app, app_assoc, F1, forwarded_app.
    destruct (is_done (ctl s1)) eqn:D1.
    + (* the loop ended in this step: the rest neither forwards nor queues *)
      assert (K : forall t s1 s2 l2, srv_run cf s1 t = (s2, l2) -> is_done (ctl s1) = true ->
                  is_done (ctl s2) = true /\ forwarded l2 = [] /\ pending (cmdq s2) = pending (cmdq s1)).
      { clear. induction t as [|o t IHt]; intros s1 s2 l2 H D; cbn [srv_run] in H.
        - inversion H; subst. auto.
        - destruct (srv_step cf s1 o) as [sa la] eqn:Ea. destruct (srv_run cf sa t) as [sb lb] eqn:Eb. inversion H; subst.
          destruct (srv_step_done _ _ _ _ _ Ea D) as [Da [Fa Pa]]. destruct (IHt _ _ _ Eb Da) as [Db [Fb Pb]].
          rewrite forwarded_app, Fa, Fb, Pb, Pa. auto. }
      destruct (K _ _ _ _ E2 D1) as [D2 [Fz Pz]]. rewrite Fz, Pz, app_nil_r.
      exists (lost1 ++ issued t). split; [rewrite <- !app_assoc; reflexivity|]. intros X. congruence.
    + rewrite (L1 eq_refl), app_nil_r, <- app_assoc, F2. exists lost2. split; [rewrite <- !app_assoc; reflexivity | exact L2].
Qed.

(* every pause()/resume() call reaches the accept thread's queue in call order, at most once; none is lost while the command
   loop runs; once the loop is idle with an empty channel, ALL of them have been forwarded *)
Theorem server_forwards_in_order : forall cf ops,
  exists lost, issued ops = forwarded (srv_trace cf ops) ++ pending (cmdq (srv_final cf ops)) ++ lost /\
               (is_done (ctl (srv_final cf ops)) = false -> lost = []).
Proof.
  intros cf ops. unfold srv_trace, srv_final. destruct (srv_run cf sinit ops) as [s' l] eqn:E.
  destruct (srv_run_fwd _ _ _ _ _ E) as [lost [F L]]. exists lost. cbn in F. auto.
Qed.

Corollary server_forwards_all_when_idle : forall cf ops,
  ctl (srv_final cf ops) = SIdle -> cmdq (srv_final cf ops) = [] ->
  forwarded (srv_trace cf ops) = issued ops.
Proof.
  intros cf ops I Q. destruct (server_forwards_in_order cf ops) as [lost [F L]].
  rewrite Q in F. rewrite I in L. rewrite (L eq_refl) in F. cbn in F. rewrite app_nil_r in F. auto.
Qed.
