#!/usr/bin/env python3
"""Run checks against a seeded change WITHOUT touching /repo's working tree:
   python3 vp/seeded_eval.py seeded/<name> C16 [C17 ...] [--tier quick]
A scratch worktree of /repo's HEAD gets seeded/<name>/patch.diff applied and is bind-mounted over /repo inside a private
mount namespace (unshare -m); the checks run there with their build directory, work directory and evidence directory
redirected under /tmp, so other users of /repo and the committed evidence are not disturbed. The scratch worktree is
removed afterwards. Results are written to seeded/<name>/result.json."""
import json
import os
import shutil
import subprocess
import sys
import time

ROOT = os.path.dirname(os.path.dirname(os.path.abspath(__file__)))


def main():
    args = [a for a in sys.argv[1:] if not a.startswith("--")]
    tier = "quick"
    if "--tier" in sys.argv:
        tier = sys.argv[sys.argv.index("--tier") + 1]
        args = [a for a in args if a != tier]
    sdir = os.path.abspath(args[0])
    ids = args[1:]
    name = os.path.basename(sdir.rstrip("/"))
    wt = "/tmp/seval_%s_%d" % (name, os.getpid())
    evid = "/tmp/seval_evid_%s_%d" % (name, os.getpid())
    # evaluations share one cargo target directory: they must not overlap (cargo decides freshness by mtime, a scratch tree created
    # while another evaluation is still building would be taken for already built — seen once as a spurious "miss")
    import fcntl
    lock = open("/tmp/seval_target.lock", "w")
    fcntl.flock(lock, fcntl.LOCK_EX)
    subprocess.run(["git", "-C", "/repo", "worktree", "add", "-q", "--detach", wt, "HEAD"], check=True)
    results = {}
    try:
        r = subprocess.run(["git", "-C", wt, "apply", os.path.join(sdir, "patch.diff")], capture_output=True, text=True)
        if r.returncode != 0:
            print("patch does not apply on /repo HEAD:\n" + r.stderr)
            return 2
        os.makedirs(evid, exist_ok=True)
        env = dict(os.environ, VERIF_EVID_DIR=evid, VERIF_WORK_DIR=evid + "/work", CARGO_TARGET_DIR="/tmp/seval_target",
                   VERIF_TIER=tier)
        for pid in ids:
            t0 = time.time()
            cmd = "mount --bind %s /repo && cd %s && ./check %s --tier %s" % (wt, ROOT, pid, tier)
            p = subprocess.run(["unshare", "-m", "sh", "-c", cmd], capture_output=True, text=True, env=env)
            lines = [l for l in p.stdout.split("\n") if l.startswith("VIOLATION") or l.startswith("KNOWN-FINDING")]
            replays = []
            for l in lines:
                if "replay=" in l:
                    path = l.split("replay=")[1].split()[0]
                    try:
                        rp = json.load(open(path))
                        replays.append({"kind": rp.get("kind"), "stream": rp.get("stream"), "case": rp.get("case"),
                                        "what": (rp.get("what") or "")[:300], "no_failing_input_found": l.rstrip().endswith("no-failing-input-found")})
                    except Exception as e:  # noqa: BLE001
                        replays.append({"error": str(e)})
            results[pid] = {"exit": p.returncode, "lines": lines, "replays": replays, "wall_s": round(time.time() - t0, 1),
                            "stderr_tail": p.stderr.strip().split("\n")[-1][:300]}
            if p.returncode not in (0, 1) or (p.returncode == 1 and not lines):
                # the check itself broke: keep what it said
                open("/tmp/seval_broken_%s_%s.txt" % (name, pid), "w").write(p.stdout[-20000:] + "\n----- stderr\n" + p.stderr[-20000:])
            print("%s: exit=%d %s (%.0fs)" % (pid, p.returncode, "; ".join(lines)[:300], time.time() - t0))
    finally:
        subprocess.run(["git", "-C", "/repo", "worktree", "remove", "--force", wt])
        shutil.rmtree(evid, ignore_errors=True)
    out = os.path.join(sdir, "result.json")
    old = json.load(open(out)) if os.path.exists(out) else {}
    old.update(results)
    json.dump(old, open(out, "w"), indent=1)
    return 0


if __name__ == "__main__":
    sys.exit(main())
