(* Proofs/SrvPauseB.v — C05, part 2: no connection is stranded in a backlog (fault-free runs).
   [BInv]: whenever the loop runs, is not paused and some worker is flagged available, every listener with a
   non-empty backlog and no injected error pending has a recorded reason to be looked at again: it is
   registered with an unreported edge, or it is in back-off (and then the poll timeout is armed: RInv).
   Needs the environment assumption that accept() never reports WouldBlock while connections are queued
   (scripts without `Inject _ EWouldBlock`; the witness of what happens otherwise is in Props/C05.v).
   [WQ]: a non-empty waker queue always has its waker edge pending.
   Built on Inv (SrvInv.v, counters: gives existence/no-spin of every function) and RInv (SrvPause.v). *)
From Coq Require Import List Arith ZArith NArith Bool Lia.
From AN Require Import Model.Srv Proofs.AvailFacts Proofs.ListFacts Proofs.SrvInv Proofs.SrvPause.
Import ListNotations.

(* scripts in which accept() never fails with WouldBlock out of the blue *)
Definition nwb_eop (o : eop) : bool := match o with Inject _ EWouldBlock => false | _ => true end.
Definition nwb_ys (ys : ysched) : bool := forallb (forallb nwb_eop) ys.
Definition nwb_op (o : op) : bool :=
  match o with
  | E e => nwb_eop e
  | AcceptTok _ ys | HandleWaker ys | Turn ys => nwb_ys ys
  | _ => true
  end.

Definition NoWB (l : lst) : Prop := ~ In EWouldBlock (l_inject l).
Definition WBl (st : state) : Prop := Forall NoWB (lsts st).

(* a reason to come back to listener l is recorded (e = false: not counting unreported edges) *)
Definition CovG (e : bool) (l : lst) : Prop :=
  l_backlog l = [] \/ l_inject l <> [] \/ (e = true /\ l_reg l = true /\ l_edge l = true) \/ l_to l <> None.

Definition BInvP (e : bool) (P : nat -> Prop) (st : state) : Prop :=
  stopped st = false -> paused st = false -> available (av st) = true ->
  forall t l, ~ P t -> nth_error (lsts st) t = Some l -> CovG e l.

Definition BInv (e : bool) (st : state) : Prop := BInvP e (fun _ => False) st.

Definition WQ (st : state) : Prop := stopped st = false -> wq st <> [] -> wpend st = true.

Lemma CovG_weaken l : CovG false l -> CovG true l.
Proof. intros [H|[H|[(H & _)|H]]]; [left|right; left|discriminate|right; right; right]; assumption. Qed.

Lemma nwb_ys_hd ys : nwb_ys ys = true -> forallb nwb_eop (hd [] ys) = true /\ nwb_ys (tl ys) = true.
Proof. destruct ys as [|y ys]; cbn; [auto|]. intros H. now apply andb_true_iff in H. Qed.

Lemma RInv_reg_or_to st l :
  RInv st -> stopped st = false -> paused st = false -> In l (lsts st) -> l_reg l = true \/ l_to l <> None.
Proof.
  intros (_ & _ & H3) Hs Hp Hin. rewrite Forall_forall in H3. destruct (H3 l Hin) as (_ & _ & _ & D).
  destruct (l_to l) eqn:Et; [right; discriminate|left; now apply D].
Qed.

Section B.
Variable L : Z.

(* ---------- environment steps ---------- *)
Ltac triv := (split; [assumption|auto]).
Lemma env_step_cov P st o :
  nf_eop o = true -> nwb_eop o = true -> WBl st ->
  WBl (env_step L st o) /\
  ((forall l, In l (lsts st) -> l_reg l = true \/ l_to l <> None) ->
   (forall t l, ~ P t -> nth_error (lsts st) t = Some l -> CovG true l) ->
   (forall t l, ~ P t -> nth_error (lsts (env_step L st o)) t = Some l -> CovG true l)).
Proof.
  intros Hnf Hwb HW. destruct o; try discriminate; cbn [env_step].
  - destruct (nth_error (lsts st) tok) as [l0|] eqn:E0; [|triv].
    destruct (l_uds l0 && negb (l_linked l0)); [triv|]. cbn [lsts upd_lst set_lsts]. split.
    + apply Forall_replace_nth; [exact HW|]. pose proof (Forall_nth_error _ _ _ _ HW E0) as H0. exact H0.
    + intros Hreg HC t l HP. rewrite nth_error_replace_nth. destruct (Nat.eqb_spec tok t) as [<-|Hne]; [|now apply HC].
      destruct (Nat.ltb tok (length (lsts st))); [|discriminate]. intros E; injection E as <-.
      destruct (Hreg l0 (nth_error_In _ _ E0)) as [Hr|Ht].
      * right; right; left. cbn. rewrite Hr, orb_true_r. auto.
      * right; right; right. exact Ht.
  - destruct (nth_error (ws st) g) as [w|]; [|triv]. destruct (w_open w); [|triv].
    destruct (w_queue w); triv.
  - destruct (nth_error (ws st) g) as [w|]; [|triv].
    destruct (remove_conn c (w_picked w)) as [[x p]|]; [|triv].
    unfold guard_drop. destruct (Z.eqb _ _); triv.
  - destruct (nth_error (ws st) g) as [w|]; [|triv]. destruct (w_open w); [|triv].
    destruct (w_queue w); [triv|]. unfold guard_drop. destruct (Z.eqb _ _); triv.
  - triv.
  - destruct (nth_error (lsts st) tok) as [l0|] eqn:E0; [|triv]. cbn [lsts upd_lst set_lsts]. split.
    + apply Forall_replace_nth; [exact HW|]. pose proof (Forall_nth_error _ _ _ _ HW E0) as H0.
      unfold NoWB in *. cbn. intros Hin. apply in_app_or in Hin as [Hin|[Hk|[]]]; [auto|subst k; discriminate Hwb].
    + intros Hreg HC t l HP. rewrite nth_error_replace_nth. destruct (Nat.eqb_spec tok t) as [<-|Hne]; [|now apply HC].
      destruct (Nat.ltb tok (length (lsts st))); [|discriminate]. intros E; injection E as <-.
      right; left. cbn. intros H. now apply app_eq_nil in H as [_ H].
Qed.

Lemma env_steps_cov P os : forall st,
  forallb nf_eop os = true -> forallb nwb_eop os = true ->
  RInv st -> stopped st = false -> paused st = false -> WBl st ->
  (forall t l, ~ P t -> nth_error (lsts st) t = Some l -> CovG true l) ->
  WBl (env_steps L st os) /\
  (forall t l, ~ P t -> nth_error (lsts (env_steps L st os)) t = Some l -> CovG true l).
Proof.
  induction os as [|o os IH]; intros st Hnf Hwb HR Hs Hp HW HC; cbn [env_steps fold_left]; [split; assumption|].
  cbn [forallb] in Hnf, Hwb. apply andb_true_iff in Hnf as [Ho Hos]. apply andb_true_iff in Hwb as [Wo Wos].
  destruct (env_step_cov P st o Ho Wo HW) as [HW1 HC1].
  destruct (env_step_r L st o HR) as [HR1 (F1 & F2 & _)].
  apply IH; [exact Hos|exact Wos|exact HR1|congruence|congruence|exact HW1|]. apply HC1; [|exact HC].
  intros l Hin. exact (RInv_reg_or_to st l HR Hs Hp Hin).
Qed.

(* the same for both flavours of CovG: with e = false nothing runs at the yield points *)
Lemma env_steps_covG e P os st :
  (e = false -> os = []) -> forallb nf_eop os = true -> forallb nwb_eop os = true ->
  RInv st -> stopped st = false -> paused st = false -> WBl st ->
  (forall t l, ~ P t -> nth_error (lsts st) t = Some l -> CovG e l) ->
  WBl (env_steps L st os) /\
  (forall t l, ~ P t -> nth_error (lsts (env_steps L st os)) t = Some l -> CovG e l).
Proof.
  intros He. destruct e; [apply env_steps_cov|]. rewrite (He eq_refl). cbn. auto.
Qed.

(* ---------- Accept::accept ---------- *)
Lemma NoWB_nth st tok l : WBl st -> nth_error (lsts st) tok = Some l -> ~ In EWouldBlock (l_inject l).
Proof. intros HW Hl. exact (Forall_nth_error _ _ _ _ HW Hl). Qed.

Lemma accept_loop_b nl e P : forall fuel st tok ys,
  Inv L nl None st -> RInv st -> WBl st -> nf_ys ys = true -> nwb_ys ys = true -> (e = false -> ys = []) ->
  stopped st = false -> paused st = false -> tok < nl -> lmeas (lsts st) tok + ysize ys < fuel ->
  (forall t l, t <> tok -> ~ P t -> nth_error (lsts st) t = Some l -> CovG e l) ->
  exists st' ys', accept_loop L fuel st tok ys = (st', ys') /\ Post L nl st ys st' ys' /\ RInv st' /\ WBl st' /\
    nwb_ys ys' = true /\ (e = false -> ys' = []) /\
    (forall t l, t <> tok -> ~ P t -> nth_error (lsts st') t = Some l -> CovG e l) /\
    (available (av st') = true -> forall l, nth_error (lsts st') tok = Some l -> CovG e l).
Proof.
  induction fuel as [|f IH]; intros st tok ys HI HR HWB Hys Hwb Hey Hst Hpa Htok Hfuel HC; [lia|].
  pose proof HI as (He & HW & Hh & Hnx & Hwf & Hbits & Hnw & Hnl & Hw).
  cbn [accept_loop]. rewrite He.
  destruct (available (av st)) eqn:Hav.
  2:{ exists st, ys. split; [reflexivity|]. split; [now apply Post_refl|].
      split; [exact HR|]. split; [exact HWB|]. split; [exact Hwb|]. split; [exact Hey|]. split; [exact HC|].
      intros Ha; congruence. }
  assert (Hlt : tok < length (lsts st)) by (rewrite Hnl; exact Htok).
  destruct (nth_error_lt_Some _ _ Hlt) as [l Hl]. rewrite Hl.
  assert (Hm : lmeas (lsts st) tok = length (l_backlog l) + length (l_inject l)) by (unfold lmeas; now rewrite Hl).
  pose proof (NoWB_nth _ _ _ HWB Hl) as Hnowb.
  destruct (l_inject l) as [|k rest] eqn:Hinj.
  - destruct (l_backlog l) as [|c rest] eqn:Hback.
    + exists st, ys. split; [reflexivity|]. split; [now apply Post_refl|].
      split; [exact HR|]. split; [exact HWB|]. split; [exact Hwb|]. split; [exact Hey|]. split; [exact HC|].
      intros _ l0 Hl0. rewrite Hl in Hl0. injection Hl0 as <-. now left.
    + set (l1 := {| l_uds := l_uds l; l_reg := l_reg l; l_edge := l_edge l; l_to := l_to l; l_backlog := rest;
                    l_inject := []; l_linked := l_linked l |}).
      set (st1 := upd_lst st tok l1).
      assert (HI1 : Inv L nl None st1) by (apply Inv_upd_lst; exact HI).
      assert (HR1 : RInv st1) by (eapply RInv_upd_lst_key; eauto; reflexivity).
      assert (HWB1 : WBl st1) by (apply Forall_replace_nth; [exact HWB|]; unfold NoWB; cbn; auto).
      assert (HC1 : forall t l0, ~ (t = tok \/ P t) -> nth_error (lsts st1) t = Some l0 -> CovG e l0).
      { intros t l0 HnP. unfold st1. cbn [lsts upd_lst set_lsts]. rewrite nth_error_replace_nth_other by (intros ->; tauto).
        apply HC; tauto. }
      destruct (proj1 (available_getb (av st) Hwf) Hav) as (i & Hi & Hbi).
      pose proof (Hbits i Hi Hbi) as Hik.
      assert (Hbk : getb (av st1) (N.of_nat (N.to_nat i)) = true) by (rewrite N2Nat.id; exact Hbi).
      destruct (accept_one_inv L nl _ (accept_one_fuel st1) st1 {| c_id := c; c_tok := tok |} ys (N.to_nat i)
                  HI1 Hys Hik Hbk eq_refl) as (st2 & Hs & HI2 & Hwq & Hls & Hp & Hstp & Hnow & _ & Hlw & HTI).
      { unfold accept_one_fuel, st1. cbn [handles upd_lst set_lsts ws next]. rewrite Hh, seq_length. unfold cdist.
        destruct (Nat.leb (next st) (N.to_nat i)); nia. }
      rewrite Hs.
      destruct (nf_ys_hd _ Hys) as [Hhd Htl]. destruct (nwb_ys_hd _ Hwb) as [Whd Wtl].
      assert (HR2 : RInv st2) by exact (proj1 (accept_one_r L _ _ _ _ _ _ HR1 Hpa Hs)).
      destruct (env_steps_covG e (fun t => t = tok \/ P t) (hd [] ys) st1) as [HWB2 HC2]; auto.
      { intros E. now rewrite (Hey E). }
      assert (HWB2' : WBl st2) by (unfold WBl; rewrite Hls; exact HWB2).
      assert (Hm2 : lmeas (lsts st2) tok + ysize (tl ys) < f).
      { rewrite Hls. pose proof (env_steps_lmeas L (hd [] ys) st1 tok) as Hle.
        unfold st1 in Hle at 2. cbn [lsts upd_lst set_lsts] in Hle. rewrite lmeas_replace in Hle by exact Hlt.
        cbn [l1 l_backlog l_inject length] in Hle. rewrite (ysize_hd_tl ys) in Hfuel. cbn [length] in Hm. lia. }
      destruct (IH st2 tok (tl ys) HI2 HR2 HWB2' Htl Wtl) as (st' & ys' & Hs' & HP' & Hrest); auto.
      { intros E. now rewrite (Hey E). }
      { now rewrite Hstp. }
      { now rewrite Hp. }
      { intros t l0 Hne HnP. rewrite Hls. apply HC2. tauto. }
      rewrite Hs'. exists st', ys'. split; [reflexivity|]. split; [|exact Hrest].
      eapply Post_trans; [|exact HP']. unfold Post. split; [exact HI2|]. split; [exact Htl|].
      split; [rewrite (ysize_hd_tl ys); unfold st1 in Hwq; cbn in Hwq; lia|].
      repeat match goal with |- _ /\ _ => split; [solve [auto]|] end. exact HTI.
  - set (l1 := {| l_uds := l_uds l; l_reg := l_reg l; l_edge := l_edge l; l_to := l_to l; l_backlog := l_backlog l;
                  l_inject := rest; l_linked := l_linked l |}).
    assert (HWB1 : forall l', l_inject l' = rest -> WBl (upd_lst st tok l')).
    { intros l' E'. apply Forall_replace_nth; [exact HWB|]. unfold NoWB. rewrite E'. intros Hin. apply Hnowb. now right. }
    assert (HC1 : forall l' t l0, t <> tok -> ~ P t -> nth_error (lsts (upd_lst st tok l')) t = Some l0 -> CovG e l0).
    { intros l' t l0 Hne HnP. cbn [lsts upd_lst set_lsts]. rewrite nth_error_replace_nth_other by congruence. now apply HC. }
    destruct k.
    + exfalso. apply Hnowb. now left.
    + assert (HI1 : Inv L nl None (upd_lst st tok l1)) by (apply Inv_upd_lst; exact HI).
      assert (HR1 : RInv (upd_lst st tok l1)) by (eapply RInv_upd_lst_key; eauto; reflexivity).
      assert (Hm1 : lmeas (lsts (upd_lst st tok l1)) tok + ysize ys < f).
      { cbn [lsts upd_lst set_lsts]. rewrite lmeas_replace by exact Hlt. cbn [l1 l_backlog l_inject]. cbn [length] in Hm. lia. }
      destruct (IH _ tok ys HI1 HR1 (HWB1 l1 eq_refl) Hys Hwb Hey) as (st' & ys' & Hs' & HP' & Hrest); auto.
      { apply HC1. }
      rewrite Hs'. exists st', ys'. split; [reflexivity|]. split; [|exact Hrest].
      eapply Post_trans; [|exact HP']. apply Post_frame; auto.
    + set (l2 := set_l_to (deregister l1) (Some (now st + 500)%N)).
      destruct (set_timeout_spec (upd_lst st tok l2) 510%N) as (_ & S1 & S2 & S3 & S4 & S5 & S6 & S7 & S8 & S9).
      eexists _, ys. split; [reflexivity|]. split.
      { pose proof (set_timeout_frame (upd_lst st tok l2) 510%N) as (F1 & F2 & F3 & F4 & F5 & F6 & F7 & F8).
        apply Post_frame; auto. apply Inv_set_timeout, Inv_upd_lst; exact HI. }
      split; [eapply RInv_backoff; eauto; reflexivity|].
      split; [unfold WBl; rewrite S2; apply (HWB1 l2); reflexivity|].
      split; [exact Hwb|]. split; [exact Hey|]. split.
      * intros t l0 Hne HnP. rewrite S2. now apply HC1.
      * intros _ l0. rewrite S2. cbn [lsts upd_lst set_lsts]. rewrite nth_error_replace_nth_same by exact Hlt.
        intros E; injection E as <-. right; right; right. discriminate.
Qed.

Lemma accept_b nl e P st tok ys :
  Inv L nl None st -> RInv st -> WBl st -> nf_ys ys = true -> nwb_ys ys = true -> (e = false -> ys = []) ->
  stopped st = false -> paused st = false -> tok < nl ->
  (forall t l, t <> tok -> ~ P t -> nth_error (lsts st) t = Some l -> CovG e l) ->
  exists st' ys', accept L st tok ys = (st', ys') /\ Post L nl st ys st' ys' /\ RInv st' /\ WBl st' /\
    nwb_ys ys' = true /\ (e = false -> ys' = []) /\
    (forall t l, t <> tok -> ~ P t -> nth_error (lsts st') t = Some l -> CovG e l) /\
    (available (av st') = true -> forall l, nth_error (lsts st') tok = Some l -> CovG e l).
Proof.
  intros HI HR HWB Hys Hwb Hey Hst Hpa Htok HC. unfold accept. rewrite Hpa.
  apply accept_loop_b; auto.
  unfold accept_fuel, lmeas. pose proof (Inv_lsts_len _ _ _ _ HI) as Hnl.
  destruct (nth_error_lt_Some (lsts st) tok ltac:(lia)) as [l Hl]. rewrite Hl. lia.
Qed.

Lemma accept_idle st tok ys :
  err st = None -> paused st = false -> available (av st) = false -> accept L st tok ys = (st, ys).
Proof.
  intros He Hpa Hav. unfold accept, accept_fuel. rewrite Hpa.
  destruct (nth_error (lsts st) tok); cbn [accept_loop]; now rewrite He, Hav.
Qed.

Lemma accept_toks_b nl e P : forall toks st ys,
  Inv L nl None st -> RInv st -> WBl st -> nf_ys ys = true -> nwb_ys ys = true -> (e = false -> ys = []) ->
  stopped st = false -> paused st = false -> Forall (fun t => t < nl) toks ->
  (available (av st) = true -> forall t l, ~ P t -> ~ In t toks -> nth_error (lsts st) t = Some l -> CovG e l) ->
  exists st' ys', accept_toks L st toks ys = (st', ys') /\ Post L nl st ys st' ys' /\ RInv st' /\ WBl st' /\
    nwb_ys ys' = true /\ (e = false -> ys' = []) /\
    (available (av st') = true -> forall t l, ~ P t -> nth_error (lsts st') t = Some l -> CovG e l).
Proof.
  induction toks as [|t r IH]; intros st ys HI HR HWB Hys Hwb Hey Hst Hpa HF HC; cbn [accept_toks].
  - exists st, ys. split; [reflexivity|]. split; [now apply Post_refl|].
    split; [exact HR|]. split; [exact HWB|]. split; [exact Hwb|]. split; [exact Hey|].
    intros Ha t l HnP. apply HC; auto.
  - inversion HF as [|? ? Ht HF']; subst.
    destruct (available (av st)) eqn:Hav.
    + destruct (accept_b nl e (fun x => P x \/ In x r) st t ys HI HR HWB Hys Hwb Hey Hst Hpa Ht)
        as (st1 & ys1 & Hs1 & HP1 & HR1 & HWB1 & Hwb1 & Hey1 & C1 & C2).
      { intros t' l Hne HnP. apply (HC eq_refl); [tauto|]. intros [->|Hin]; tauto. }
      rewrite Hs1. pose proof HP1 as (HI1 & Hys1 & _ & Hp1 & Hst1 & _).
      destruct (IH st1 ys1 HI1 HR1 HWB1 Hys1 Hwb1 Hey1) as (st2 & ys2 & Hs2 & HP2 & Hrest); auto; try congruence.
      { intros Ha t' l HnP Hnin Hl. destruct (Nat.eq_dec t' t) as [->|Hne]; [exact (C2 Ha l Hl)|].
        apply (C1 t' l Hne); [tauto|exact Hl]. }
      rewrite Hs2. exists st2, ys2. split; [reflexivity|]. split; [|exact Hrest]. eapply Post_trans; eauto.
    + rewrite accept_idle; auto; [|apply HI].
      destruct (IH st ys HI HR HWB Hys Hwb Hey Hst Hpa HF') as (st2 & ys2 & Hs2 & Hrest); [intros Ha; congruence|].
      rewrite Hs2. exists st2, ys2. split; [reflexivity|exact Hrest].
Qed.

Lemma accept_all_b nl e st ys :
  Inv L nl None st -> RInv st -> WBl st -> nf_ys ys = true -> nwb_ys ys = true -> (e = false -> ys = []) ->
  stopped st = false -> paused st = false ->
  exists st' ys', accept_all L st ys = (st', ys') /\ Post L nl st ys st' ys' /\ RInv st' /\ WBl st' /\
    nwb_ys ys' = true /\ (e = false -> ys' = []) /\ BInv e st'.
Proof.
  intros HI HR HWB Hys Hwb Hey Hst Hpa. unfold accept_all.
  destruct (accept_toks_b nl e (fun _ => False) (seq 0 (length (lsts st))) st ys HI HR HWB Hys Hwb Hey Hst Hpa)
    as (st' & ys' & Hs & HP & HR' & HWB' & Hwb' & Hey' & HC').
  { rewrite (Inv_lsts_len _ _ _ _ HI). apply Forall_forall. intros t Ht. apply in_seq in Ht. lia. }
  { intros _ t l _ Hnin Hl. exfalso. apply Hnin. apply in_seq. pose proof (nth_error_Some_lt _ _ _ Hl). lia. }
  exists st', ys'. split; [exact Hs|]. split; [exact HP|]. split; [exact HR'|]. split; [exact HWB'|].
  split; [exact Hwb'|]. split; [exact Hey'|]. intros _ _ Ha t l _. now apply HC'.
Qed.

(* ---------- Accept::handle_waker ---------- *)
Lemma WBl_deregister_all ls :
  Forall NoWB ls -> Forall NoWB (map (fun l => match l_to l with Some _ => set_l_to l None | None => deregister l end) ls).
Proof. intros H. apply Forall_map. eapply Forall_impl; [|exact H]. intros l Hl. destruct (l_to l); exact Hl. Qed.

Lemma WBl_register_all ls : Forall NoWB ls -> Forall NoWB (map register ls).
Proof. intros H. apply Forall_map. eapply Forall_impl; [|exact H]. intros l Hl. unfold register. destruct (l_reg l); exact Hl. Qed.

Lemma handle_waker_b nl e : forall fuel st ys,
  Inv L nl None st -> RInv st -> WBl st -> nf_ys ys = true -> nwb_ys ys = true -> (e = false -> ys = []) ->
  stopped st = false -> BInv e st -> length (wq st) + ysize ys < fuel ->
  exists st' ys', handle_waker L fuel st ys = (st', ys') /\ Inv L nl None st' /\ RInv st' /\ WBl st' /\
    nf_ys ys' = true /\ nwb_ys ys' = true /\ (e = false -> ys' = []) /\ BInv e st' /\
    (stopped st' = true \/ wq st' = []).
Proof.
  induction fuel as [|f IH]; intros st ys HI HR HWB Hys Hwb Hey Hst HB Hfuel; [lia|].
  pose proof HI as (He & HW & Hh & Hnx & Hwf & Hbits & Hnw & Hnl & Hw).
  cbn [handle_waker]. rewrite He.
  destruct (wq st) as [|i rest] eqn:Hq.
  { exists st, ys. split; [reflexivity|]. repeat (split; [assumption|]). now right. }
  set (st0 := set_wq st rest (wpend st)).
  assert (HR0 : RInv st0) by (eapply RInv_core; [|exact HR]; reflexivity).
  assert (HWB0 : WBl st0) by exact HWB.
  assert (HB0 : BInv e st0) by exact HB.
  destruct i as [idx|g| | |].
  - (* WorkerAvailable *)
    set (st1 := if existsb _ (handles st0) then av_set st0 idx true else st0).
    assert (HI1 : Inv L nl None st1 /\ Q st0 st1).
    { pose proof (InvC_wake L nl _ _ _ _ _ rest _ idx ltac:(unfold Inv in HI; rewrite Hq in HI; exact HI)) as H1.
      unfold st1. change (handles st0) with (handles st). change (ws st0) with (ws st).
      destruct (existsb _ (handles st)) eqn:Hex; [|split; [exact H1|apply Q_refl]].
      assert (H512 : (idx < 512)%N).
      { apply existsb_exists in Hex as (g & Hin & Hg). rewrite Hh in Hin. apply in_seq in Hin.
        destruct (nth_error (ws st) g) as [w|] eqn:Eg; [|discriminate]. apply N.eqb_eq in Hg.
        destruct (Hw _ _ Eg) as (Hidx & _). lia. }
      split; [rewrite av_set_ok by exact H512; exact H1|apply Q_av_set]. }
    destruct HI1 as (HI1 & (Q1 & Q2 & Q3 & Q4 & Q5 & Q6 & Q7)).
    assert (HR1 : RInv st1) by (unfold st1; destruct (existsb _ (handles st0)); [now apply RInv_av_set|exact HR0]).
    assert (HWB1 : WBl st1) by (unfold WBl; rewrite Q1; exact HWB).
    assert (Hst1 : stopped st1 = false) by (rewrite Q5; exact Hst).
    assert (Hq1 : wq st1 = rest) by (rewrite Q2; reflexivity).
    destruct (paused st1) eqn:Hpa.
    + destruct (IH st1 ys HI1 HR1 HWB1 Hys Hwb Hey Hst1) as (st' & ys' & Hs & Hrest);
        [intros _ Hp; congruence|rewrite Hq1; cbn in Hfuel; lia|].
      rewrite Hs. exists st', ys'. split; [reflexivity|exact Hrest].
    + destruct (accept_all_b nl e st1 ys HI1 HR1 HWB1 Hys Hwb Hey Hst1 Hpa)
        as (st2 & ys2 & Hs2 & HP2 & HR2 & HWB2 & Hwb2 & Hey2 & HB2).
      rewrite Hs2. destruct HP2 as (HI2 & Hys2 & Hm2 & _ & Hst2 & _).
      destruct (IH st2 ys2 HI2 HR2 HWB2 Hys2 Hwb2 Hey2) as (st' & ys' & Hs & Hrest);
        [congruence|exact HB2|rewrite Hq1 in Hm2; cbn in Hfuel; lia|].
      rewrite Hs. exists st', ys'. split; [reflexivity|exact Hrest].
  - exfalso. apply (Hnw g). now left.
  - (* Pause *)
    assert (HI0 : Inv L nl None st0).
    { unfold Inv, st0. cbn. eapply InvC_pop_other; [|unfold Inv in HI; rewrite Hq in HI; exact HI]. discriminate. }
    set (st1 := if paused st0 then st0 else emit (deregister_all (set_paused st0 true)) EvPauseOn).
    assert (H1 : Inv L nl None st1 /\ RInv st1 /\ WBl st1 /\ wq st1 = rest /\ stopped st1 = false /\ paused st1 = true).
    { unfold st1. destruct (paused st0) eqn:Hp0.
      { split; [exact HI0|]. split; [exact HR0|]. split; [exact HWB|]. split; [reflexivity|]. split; [exact Hst|exact Hp0]. }
      split; [apply (Inv_deregister_all L nl None (set_paused st0 true)); exact HI0|].
      split; [now apply RInv_pause|]. split; [apply WBl_deregister_all; exact HWB|].
      split; [reflexivity|]. split; [exact Hst|reflexivity]. }
    destruct H1 as (HI1 & HR1 & HWB1 & Hq1 & Hst1 & Hp1).
    destruct (IH st1 ys HI1 HR1 HWB1 Hys Hwb Hey Hst1) as (st' & ys' & Hs & Hrest);
      [intros _ Hp; congruence|rewrite Hq1; cbn in Hfuel; lia|].
    rewrite Hs. exists st', ys'. split; [reflexivity|exact Hrest].
  - (* Resume *)
    assert (HI0 : Inv L nl None st0).
    { unfold Inv, st0. cbn. eapply InvC_pop_other; [|unfold Inv in HI; rewrite Hq in HI; exact HI]. discriminate. }
    destruct (paused st0) eqn:Hpa.
    + set (st1 := emit (set_lsts (set_paused st0 false) (map register (lsts st0))) EvPauseOff).
      assert (HI1 : Inv L nl None st1).
      { unfold Inv, st1. cbn. eapply InvC_change_ls; [|exact HI0]. rewrite map_length. exact Hnl. }
      assert (HR1 : RInv st1) by now apply RInv_resume.
      assert (HWB1 : WBl st1) by (apply WBl_register_all; exact HWB).
      destruct (accept_all_b nl e st1 ys HI1 HR1 HWB1 Hys Hwb Hey Hst eq_refl)
        as (st2 & ys2 & Hs2 & HP2 & HR2 & HWB2 & Hwb2 & Hey2 & HB2).
      rewrite Hs2. destruct HP2 as (HI2 & Hys2 & Hm2 & _ & Hst2 & _).
      destruct (IH st2 ys2 HI2 HR2 HWB2 Hys2 Hwb2 Hey2) as (st' & ys' & Hs & Hrest);
        [rewrite Hst2; exact Hst|exact HB2|unfold st1 in Hm2; cbn in Hm2, Hfuel; lia|].
      rewrite Hs. exists st', ys'. split; [reflexivity|exact Hrest].
    + destruct (IH st0 ys HI0 HR0 HWB0 Hys Hwb Hey Hst HB0) as (st' & ys' & Hs & Hrest); [cbn in Hfuel |- *; lia|].
      rewrite Hs. exists st', ys'. split; [reflexivity|exact Hrest].
  - (* Stop *)
    assert (HI0 : Inv L nl None st0).
    { unfold Inv, st0. cbn. eapply InvC_pop_other; [|unfold Inv in HI; rewrite Hq in HI; exact HI]. discriminate. }
    eexists _, ys. split; [reflexivity|].
    split; [destruct (paused st0); [exact HI0|]; apply Inv_deregister_all in HI0; exact HI0|].
    split; [apply RInv_stop; exact HR0|].
    split; [destruct (paused st0); [exact HWB|apply WBl_deregister_all; exact HWB]|].
    split; [exact Hys|]. split; [exact Hwb|]. split; [exact Hey|].
    split; [intros Hs; discriminate Hs|]. now left.
Qed.

(* ---------- the poll: which listeners are reported ---------- *)
Lemma ready_toks_in ls : forall k t l,
  nth_error ls t = Some l -> l_reg l = true -> l_edge l = true -> l_backlog l <> [] -> In (k + t) (ready_toks k ls).
Proof.
  induction ls as [|x ls IH]; intros k t l Hl Hr He Hb; [destruct t; discriminate|]. cbn [ready_toks].
  destruct t as [|t]; cbn in Hl.
  - injection Hl as ->. rewrite Hr, He. destruct (l_backlog l); [congruence|]. cbn. left. lia.
  - apply in_or_app. right. replace (k + S t) with (S k + t) by lia. eapply IH; eauto.
Qed.

Lemma ready_toks_unreg ls : Forall (fun l => l_reg l = false) ls -> forall k, ready_toks k ls = [].
Proof.
  induction 1 as [|l ls Hl _ IH]; intros k; cbn [ready_toks]; [reflexivity|]. rewrite Hl, IH. reflexivity.
Qed.

Lemma RInv_paused_unreg st : RInv st -> paused st = true -> Forall (fun l => l_reg l = false) (lsts st).
Proof.
  intros (_ & _ & H3) Hp. eapply Forall_impl; [|exact H3]. intros l (_ & _ & C & _). now apply C.
Qed.

Definition turn_start (st : state) : state :=
  emit (set_wq (set_lsts st (clear_edges (lsts st))) (wq st) false) (EvReady (ready_toks 0 (lsts st)) (wpend st)).

(* one Turn up to (not including) process_timeout; e = false is the turn without yields of the recovery theorems *)
Lemma turn_core nl e st ys :
  Inv L nl None st -> RInv st -> WBl st -> BInv true st -> WQ st ->
  nf_ys ys = true -> nwb_ys ys = true -> (e = false -> ys = []) -> stopped st = false ->
  exists st1 ys1 st2 ys2,
    accept_toks L (turn_start st) (ready_toks 0 (lsts st)) ys = (st1, ys1) /\
    (if wpend st then handle_waker L (handle_waker_fuel st1 ys1) st1 ys1 else (st1, ys1)) = (st2, ys2) /\
    Inv L nl None st2 /\ RInv st2 /\ WBl st2 /\ BInv e st2 /\ WQ st2 /\ (e = false -> ys1 = [] /\ ys2 = []) /\
    stopped st1 = false /\ paused st1 = paused st /\ Fr1 (turn_start st) st1.
Proof.
  intros HI HR HWB HB HQ Hys Hwb Hey Hst. set (st0 := turn_start st). set (toks := ready_toks 0 (lsts st)).
  assert (HI0 : Inv L nl None st0).
  { unfold Inv, st0, turn_start. cbn. eapply InvC_change_ls; [|exact HI]. unfold clear_edges. rewrite map_length.
    exact (Inv_lsts_len _ _ _ _ HI). }
  assert (HR0 : RInv st0) by (apply RInv_turn_start; exact HR).
  assert (HWB0 : WBl st0).
  { unfold WBl, st0, turn_start, clear_edges. cbn. apply Forall_map. eapply Forall_impl; [|exact HWB]. intros l Hl. exact Hl. }
  assert (HT : Forall (fun t => t < nl) toks).
  { apply Forall_forall. intros t Ht. apply ready_toks_bound in Ht. rewrite (Inv_lsts_len _ _ _ _ HI) in Ht. lia. }
  (* the accept calls for the reported listeners *)
  assert (A : exists st1 ys1, accept_toks L st0 toks ys = (st1, ys1) /\ Post L nl st0 ys st1 ys1 /\ RInv st1 /\ WBl st1 /\
              nwb_ys ys1 = true /\ (e = false -> ys1 = []) /\ BInv e st1 /\ Fr1 st0 st1).
  { destruct (paused st) eqn:Hpa.
    - unfold toks. rewrite (ready_toks_unreg _ (RInv_paused_unreg _ HR Hpa)). cbn [accept_toks].
      exists st0, ys. split; [reflexivity|]. split; [now apply Post_refl|]. split; [exact HR0|]. split; [exact HWB0|].
      split; [exact Hwb|]. split; [exact Hey|]. split; [|apply Fr1_refl]. intros _ Hp. cbn in Hp. congruence.
    - destruct (accept_toks_b nl e (fun _ => False) toks st0 ys HI0 HR0 HWB0 Hys Hwb Hey Hst Hpa HT)
        as (st1 & ys1 & Hs1 & HP1 & HR1 & HWB1 & Hwb1 & Hey1 & C1).
      { intros Ha t l _ Hnin. unfold st0, turn_start, clear_edges. cbn [lsts emit set_wq set_lsts].
        rewrite nth_error_map. destruct (nth_error (lsts st) t) as [l0|] eqn:E0; [|discriminate].
        cbn. intros E; injection E as <-.
        destruct (HB Hst Hpa Ha t l0 (fun x => x) E0) as [H|[H|[(_ & Hr & Hed)|H]]].
        + left. exact H.
        + right; left. exact H.
        + destruct (l_backlog l0) eqn:Eb; [left; reflexivity|]. exfalso. apply Hnin.
          apply (ready_toks_in (lsts st) 0 t l0 E0 Hr Hed). congruence.
        + right; right; right. exact H. }
      exists st1, ys1. split; [exact Hs1|]. split; [exact HP1|]. split; [exact HR1|]. split; [exact HWB1|].
      split; [exact Hwb1|]. split; [exact Hey1|]. split; [|exact (proj2 (accept_toks_r L _ _ _ _ _ HR0 Hs1))].
      intros _ _ Ha t l _ Hl. exact (C1 Ha t l (fun x => x) Hl). }
  destruct A as (st1 & ys1 & Hs1 & HP1 & HR1 & HWB1 & Hwb1 & Hey1 & HB1 & F1).
  pose proof HP1 as (HI1 & Hys1 & _ & Hp1 & Hst1 & _).
  assert (Hst1' : stopped st1 = false) by (rewrite Hst1; exact Hst).
  destruct (wpend st) eqn:Hwk.
  - destruct (handle_waker_b nl e (handle_waker_fuel st1 ys1) st1 ys1 HI1 HR1 HWB1 Hys1 Hwb1 Hey1 Hst1' HB1)
      as (st2 & ys2 & Hs2 & HI2 & HR2 & HWB2 & Hys2 & Hwb2 & Hey2 & HB2 & Hend); [unfold handle_waker_fuel; lia|].
    exists st1, ys1, st2, ys2. split; [exact Hs1|]. split; [exact Hs2|]. split; [exact HI2|]. split; [exact HR2|].
    split; [exact HWB2|]. split; [exact HB2|]. split.
    + intros Hs Hne. destruct Hend; congruence.
    + split; [auto|]. split; [exact Hst1'|]. split; [exact Hp1|exact F1].
  - exists st1, ys1, st1, ys1. split; [exact Hs1|]. split; [reflexivity|]. split; [exact HI1|]. split; [exact HR1|].
    split; [exact HWB1|]. split; [exact HB1|]. split.
    + intros _ Hne. destruct F1 as (_ & _ & _ & (ext & Hext & Hw) & _).
      assert (Hq0 : wq st = []).
      { destruct (wq st) eqn:Eq; [reflexivity|]. exfalso. assert (wpend st = true) by (apply HQ; [exact Hst|congruence]). congruence. }
      change (wq st0) with (wq st) in Hext. rewrite Hq0 in Hext. cbn in Hext.
      destruct Hw as [[-> _]|Hw]; [congruence|exact Hw].
    + split; [auto|]. split; [exact Hst1'|]. split; [exact Hp1|exact F1].
Qed.

(* ---------- Accept::process_timeout ---------- *)
Lemma process_timeout_wbl st : WBl st -> WBl (process_timeout st).
Proof.
  intros H. rewrite process_timeout_eq. destruct (ptimeout st); [|exact H]. unfold WBl. cbn.
  apply Forall_map. eapply Forall_impl; [|exact H]. intros l Hl. unfold pto_l.
  destruct (l_to l); [|exact Hl]. destruct (N.ltb _ _); [exact Hl|]. destruct (paused st); [exact Hl|].
  unfold register. destruct (l_reg _); exact Hl.
Qed.

Lemma process_timeout_fields st :
  av (process_timeout st) = av st /\ stopped (process_timeout st) = stopped st /\ paused (process_timeout st) = paused st /\
  wq (process_timeout st) = wq st /\ wpend (process_timeout st) = wpend st /\ now (process_timeout st) = now st /\
  err (process_timeout st) = err st.
Proof. rewrite process_timeout_eq. destruct (ptimeout st); repeat split. Qed.

Lemma process_timeout_cov st : RInv st -> BInv true st -> BInv true (process_timeout st).
Proof.
  intros (_ & _ & H3) HB. destruct (process_timeout_fields st) as (F1 & F2 & F3 & _).
  intros Hs Hp Ha t l _. rewrite F1 in Ha. rewrite F2 in Hs. rewrite F3 in Hp.
  rewrite process_timeout_eq. destruct (ptimeout st); [|now apply HB]. cbn [lsts set_ptimeout set_lsts].
  rewrite nth_error_map. destruct (nth_error (lsts st) t) as [l0|] eqn:E0; [|discriminate]. cbn. intros E; injection E as <-.
  pose proof (HB Hs Hp Ha t l0 (fun x => x) E0) as HC. unfold pto_l.
  destruct (l_to l0) as [inst|] eqn:Et; [|exact HC]. destruct (N.ltb _ _); [exact HC|]. rewrite Hp.
  pose proof (Forall_nth_error _ _ _ _ H3 E0) as (_ & B & _). destruct (B inst Et) as (Br & _).
  unfold register. cbn [l_reg set_l_to]. rewrite Br.
  destruct (l_backlog l0) eqn:Eb; [left; cbn; exact Eb|]. right; right; left. cbn. rewrite Eb. auto.
Qed.

(* ---------- every operation ---------- *)
Definition FInv (nl : nat) (st : state) : Prop :=
  Inv L nl None st /\ RInv st /\ WBl st /\ BInv true st /\ WQ st.

Lemma live_true st : live st = true -> stopped st = false /\ err st = None.
Proof. unfold live. destruct (stopped st); [discriminate|]. destruct (err st); [discriminate|auto]. Qed.

Lemma WQ_rel st st' : WQ st -> stopped st' = stopped st -> WQrel st st' -> WQ st'.
Proof.
  intros HQ Hs (ext & Hext & Hw) Hs' Hne. rewrite Hs in Hs'. destruct Hw as [[-> Hw]|Hw]; [|exact Hw].
  rewrite app_nil_r in Hext. rewrite Hw. apply HQ; [exact Hs'|congruence].
Qed.

Lemma step_b nl st o :
  nf_op o = true -> tok_ok nl o = true -> nwb_op o = true -> FInv nl st -> FInv nl (step L st o).
Proof.
  intros Hnf Htok Hwb (HI & HR & HWB & HB & HQ).
  destruct (step_inv L nl st o Hnf Htok HI) as [HI' _]. pose proof (step_r L st o HR) as HR'.
  split; [exact HI'|]. split; [exact HR'|]. clear HI' HR'.
  destruct o as [eo|tok ys|ys| |ys|ms]; cbn [step nf_op tok_ok nwb_op] in *.
  - (* environment *)
    destruct (env_step_cov (fun _ => False) st eo Hnf Hwb HWB) as [HW1 HC1].
    destruct (env_step_frame L st eo Hnf) as (_ & _ & Fa & _ & _ & Fp & Fs & _).
    split; [exact HW1|]. split.
    + intros Hs Hp Ha. rewrite Fs in Hs. rewrite Fp in Hp. rewrite Fa in Ha. apply HC1.
      * intros l Hin. exact (RInv_reg_or_to st l HR Hs Hp Hin).
      * exact (HB Hs Hp Ha).
    + destruct (env_step_r L st eo HR) as [_ (_ & G2 & _ & G4 & _)]. eapply WQ_rel; eauto.
  - (* accept(tok) *)
    destruct (live st) eqn:Hlive; [|repeat split; assumption]. destruct (live_true _ Hlive) as [Hst He].
    apply Nat.ltb_lt in Htok.
    destruct (paused st) eqn:Hpa.
    { unfold accept. rewrite Hpa. cbn [fst]. repeat split; assumption. }
    destruct (available (av st)) eqn:Hav.
    2:{ rewrite accept_idle by assumption. cbn [fst]. repeat split; assumption. }
    destruct (accept_b nl true (fun _ => False) st tok ys HI HR HWB Hnf Hwb ltac:(discriminate) Hst Hpa Htok)
      as (st' & ys' & Hs & HP & HR' & HWB' & _ & _ & C1 & C2).
    { intros t l _ _ Hl. exact (HB Hst Hpa Hav t l (fun x => x) Hl). }
    rewrite Hs. cbn [fst]. split; [exact HWB'|]. split.
    + intros _ _ Ha t l _ Hl. destruct (Nat.eq_dec t tok) as [->|Hne]; [exact (C2 Ha l Hl)|exact (C1 t l Hne (fun x => x) Hl)].
    + destruct (accept_r L _ _ _ _ _ HR Hs) as [_ (_ & G2 & _ & G4 & _)]. eapply WQ_rel; eauto.
  - (* handle_waker *)
    destruct (live st) eqn:Hlive; [|repeat split; assumption]. destruct (live_true _ Hlive) as [Hst He].
    destruct (handle_waker_b nl true (handle_waker_fuel st ys) st ys HI HR HWB Hnf Hwb ltac:(discriminate) Hst HB)
      as (st' & ys' & Hs & _ & _ & HWB' & _ & _ & _ & HB' & Hend); [unfold handle_waker_fuel; lia|].
    rewrite Hs. cbn [fst]. split; [exact HWB'|]. split; [exact HB'|]. intros Hs' Hne. destruct Hend; congruence.
  - (* process_timeout *)
    destruct (live st); [|repeat split; assumption].
    split; [now apply process_timeout_wbl|]. split; [now apply process_timeout_cov|].
    destruct (process_timeout_fields st) as (_ & F2 & _ & F4 & F5 & _). unfold WQ. rewrite F2, F4, F5. exact HQ.
  - (* Turn *)
    destruct (live st) eqn:Hlive; [|repeat split; assumption]. destruct (live_true _ Hlive) as [Hst He].
    destruct (turn_core nl true st ys HI HR HWB HB HQ Hnf Hwb ltac:(discriminate) Hst)
      as (st1 & ys1 & st2 & ys2 & Hs1 & Hs2 & HI2 & HR2 & HWB2 & HB2 & HQ2 & _).
    fold (turn_start st). rewrite Hs1.
    assert (Hfin : forall s, Inv L nl None s -> RInv s -> WBl s -> BInv true s -> WQ s ->
                     let s' := if live s then process_timeout s else s in WBl s' /\ BInv true s' /\ WQ s').
    { intros s A1 A2 A3 A4 A5. destruct (live s); cbn; [|repeat split; assumption].
      split; [now apply process_timeout_wbl|]. split; [now apply process_timeout_cov|].
      destruct (process_timeout_fields s) as (_ & F2 & _ & F4 & F5 & _). unfold WQ. rewrite F2, F4, F5. exact A5. }
    destruct (wpend st); [rewrite Hs2|injection Hs2 as <- <-]; now apply Hfin.
  - (* Advance *)
    repeat split; assumption.
Qed.

Lemma run_b nl os : forall st,
  forallb nf_op os = true -> forallb (tok_ok nl) os = true -> forallb nwb_op os = true ->
  FInv nl st -> FInv nl (run L st os).
Proof.
  induction os as [|o os IH]; intros st Hnf Htok Hwb HF; cbn [run fold_left]; [exact HF|].
  cbn [forallb] in Hnf, Htok, Hwb. apply andb_true_iff in Hnf as [A1 A2]. apply andb_true_iff in Htok as [B1 B2].
  apply andb_true_iff in Hwb as [C1 C2]. apply IH; auto. now apply step_b.
Qed.

Lemma init_b W kinds : (1 <= L)%Z -> 1 <= W <= 512 -> FInv (length kinds) (init W kinds).
Proof.
  intros HL HW. split; [now apply init_inv|]. split; [apply init_r|]. split; [|split].
  - unfold WBl, init. cbn. apply Forall_map, Forall_forall. intros k _ H. exact H.
  - intros _ _ _ t l _. unfold init. cbn. rewrite nth_error_map. destruct (nth_error kinds t); [|discriminate].
    cbn. intros E; injection E as <-. now left.
  - intros _ H. now destruct H.
Qed.

Theorem reachable_b W kinds os :
  (1 <= L)%Z -> 1 <= W <= 512 ->
  forallb nf_op os = true -> forallb (tok_ok (length kinds)) os = true -> forallb nwb_op os = true ->
  FInv (length kinds) (run L (init W kinds) os).
Proof. intros HL HW Hnf Htok Hwb. apply run_b; auto. now apply init_b. Qed.

Lemma RInv_armed st l d :
  RInv st -> In l (lsts st) -> l_to l = Some d ->
  exists t, (d <= now st + 500)%N /\ ptimeout st = Some t /\ (t <= 510)%N.
Proof.
  intros (_ & H2 & H3) Hin Hd. rewrite Forall_forall in H3. destruct (H3 l Hin) as (_ & B & _).
  destruct (B d Hd) as (_ & B2 & B3). destruct (ptimeout st) as [t|] eqn:Ept; [|congruence].
  exists t. repeat split; auto.
Qed.

(* ---------- C05_no_strand ---------- *)
Lemma no_strand_inv nl st :
  FInv nl st ->
  err st = None /\
  (stopped st = false ->
   (wq st <> [] -> wpend st = true) /\
   forall tok l, nth_error (lsts st) tok = Some l ->
     l_linked l = true /\
     (l_reg l = true \/
      (exists d t, l_to l = Some d /\ (d <= now st + 500)%N /\ ptimeout st = Some t /\ (t <= 510)%N) \/
      (paused st = true /\ l_to l = None)) /\
     (paused st = false -> available (av st) = true -> l_backlog l <> [] -> l_inject l = [] ->
        (l_reg l = true /\ l_edge l = true) \/
        (exists d t, l_to l = Some d /\ (d <= now st + 500)%N /\ ptimeout st = Some t /\ (t <= 510)%N))).
Proof.
  intros (HI & HR & HWB & HB & HQ). split; [apply HI|]. intros Hs. split; [now apply HQ|].
  intros tok l Hl. pose proof (nth_error_In _ _ Hl) as Hin.
  pose proof HR as (_ & _ & H3). rewrite Forall_forall in H3. destruct (H3 l Hin) as (A & B & C & D).
  split; [exact A|]. split.
  - destruct (l_to l) as [d|] eqn:Et.
    + right; left. destruct (RInv_armed st l d HR Hin Et) as (t & T1 & T2 & T3). exists d, t. auto.
    + destruct (paused st) eqn:Hp; [right; right; auto|left; now apply D].
  - intros Hp Ha Hb Hi. destruct (HB Hs Hp Ha tok l (fun x => x) Hl) as [H|[H|[(_ & Hr & He)|H]]]; try contradiction.
    + left. auto.
    + right. destruct (l_to l) as [d|] eqn:Et; [|congruence].
      destruct (RInv_armed st l d HR Hin Et) as (t & T1 & T2 & T3). exists d, t. auto.
Qed.

Lemma no_strand W kinds os :
  (1 <= L)%Z -> 1 <= W <= 512 ->
  forallb nf_op os = true -> forallb (tok_ok (length kinds)) os = true -> forallb nwb_op os = true ->
  let st := run L (init W kinds) os in
  err st = None /\
  (stopped st = false ->
   (wq st <> [] -> wpend st = true) /\
   forall tok l, nth_error (lsts st) tok = Some l ->
     l_linked l = true /\
     (l_reg l = true \/
      (exists d t, l_to l = Some d /\ (d <= now st + 500)%N /\ ptimeout st = Some t /\ (t <= 510)%N) \/
      (paused st = true /\ l_to l = None)) /\
     (paused st = false -> available (av st) = true -> l_backlog l <> [] -> l_inject l = [] ->
        (l_reg l = true /\ l_edge l = true) \/
        (exists d t, l_to l = Some d /\ (d <= now st + 500)%N /\ ptimeout st = Some t /\ (t <= 510)%N))).
Proof. intros HL HW Hnf Htok Hwb st. eapply no_strand_inv. now apply reachable_b. Qed.

(* ---------- a Turn without yields, seen from one listener T ---------- *)
Lemma final_paused_no_pause q : ~ In IPause q -> final_paused false q = false.
Proof.
  induction q as [|i q IH]; intros H; cbn; [reflexivity|].
  destruct i; try (apply IH; intros Hin; apply H; now right). exfalso. apply H. now left.
Qed.

Lemma final_paused_resume_last p q : final_paused p (q ++ [IResume]) = false.
Proof. revert p; induction q as [|i q IH]; intros p; cbn; [reflexivity|apply IH]. Qed.

Lemma Calm_turn_start T o st : Calm T o st -> Calm T o (turn_start st).
Proof.
  intros (l & Hl & H1 & H2). unfold Calm, turn_start, clear_edges. cbn. rewrite nth_error_map, Hl. cbn.
  eexists. split; [reflexivity|]. cbn. auto.
Qed.

Lemma turn_quiet nl st T o :
  FInv nl st -> stopped st = false -> ~ In IStop (wq st) -> Calm T o st ->
  (forall d, o = Some d -> paused st = false /\ ~ In IPause (wq st) /\ (d <= now st)%N) ->
  let st' := step L st (Turn []) in
  FInv nl st' /\ stopped st' = false /\
  paused st' = (if wpend st then final_paused (paused st) (wq st) else paused st) /\
  Calm T None st' /\
  (o = None -> paused st' = false -> available (av st') = true ->
     forall l, nth_error (lsts st') T = Some l -> l_backlog l = []) /\
  (forall x, In x (wq st') -> In x (wq st)) /\ now st' = now st.
Proof.
  intros HF Hst Hns HC Ho st'.
  assert (HF' : FInv nl st') by (apply step_b; auto).
  split; [exact HF'|]. destruct HF as (HI & HR & HWB & HB & HQ).
  assert (Hlive : live st = true) by (unfold live; rewrite Hst; destruct HI as (-> & _); reflexivity).
  destruct (turn_core nl false st [] HI HR HWB HB HQ eq_refl eq_refl ltac:(auto) Hst)
    as (st1 & ys1 & st2 & ys2 & Hs1 & Hs2 & HI2 & HR2 & HWB2 & HB2 & HQ2 & Hey & Hst1 & Hp1 & F1).
  pose proof (Hey eq_refl) as Hey'. destruct Hey' as [E1 E2]. subst ys1 ys2.
  destruct (accept_toks_q L _ _ _ _ Hs1) as (_ & (M1 & M2 & M3 & M4 & M5 & M6) & C1).
  pose proof (C1 T o (Calm_turn_start T o st HC)) as HC1.
  (* the state before process_timeout *)
  assert (S2 : stopped st2 = false /\ now st2 = now st /\ Calm T o st2 /\
               paused st2 = (if wpend st then final_paused (paused st) (wq st) else paused st) /\
               (forall x, In x (wq st2) -> In x (wq st))).
  { destruct (wpend st) eqn:Hwk.
    - destruct (handle_waker_q L _ _ _ _ Hs2) as (_ & N2 & _ & C2 & E2); [rewrite M1; exact Hns|].
      destruct (E2 (proj1 HI2)) as (P2 & St2 & Q2 & _).
      split; [congruence|]. split; [rewrite N2, M5; reflexivity|]. split.
      + apply C2; [exact HC1|]. intros Hne. destruct o as [d|]; [|congruence].
        destruct (Ho d eq_refl) as (A1 & A2 & _). split; [congruence|]. rewrite M1. exact A2.
      + split; [rewrite P2, M3, M1; reflexivity|]. intros x Hin. rewrite Q2 in Hin. destruct Hin.
    - injection Hs2 as <-. split; [exact Hst1|]. split; [rewrite M5; reflexivity|]. split; [exact HC1|].
      split; [exact Hp1|]. intros x Hin. rewrite M1 in Hin. exact Hin. }
  destruct S2 as (St2 & N2 & HC2 & P2 & W2).
  assert (E' : st' = process_timeout st2).
  { unfold st'. cbn [step]. rewrite Hlive. fold (turn_start st). rewrite Hs1.
    assert (Hl2 : live st2 = true) by (unfold live; rewrite St2; destruct HI2 as (-> & _); reflexivity).
    destruct (wpend st); [rewrite Hs2|injection Hs2 as <-]; rewrite Hl2; reflexivity. }
  destruct (process_timeout_fields st2) as (Fa & Fs & Fp & Fq & _ & Fn & _).
  rewrite E'. split; [congruence|]. split; [congruence|]. split; [|split; [|split; [intros x; rewrite Fq; apply W2|congruence]]].
  - destruct o as [d|]; [|now apply process_timeout_calm_none].
    destruct (Ho d eq_refl) as (A1 & A2 & A3).
    assert (Hp2 : paused st2 = false).
    { rewrite P2. destruct (wpend st); [|exact A1]. rewrite A1. now apply final_paused_no_pause. }
    apply (process_timeout_calm_some T d); [exact HC2| |exact Hp2|rewrite N2; exact A3].
    destruct HC2 as (l & Hl & _ & Ht). destruct (RInv_armed st2 l d HR2 (nth_error_In _ _ Hl) Ht) as (t & _ & Et & _). congruence.
  - intros -> Hp' Ha' l Hl. rewrite Fp in Hp'. rewrite Fa in Ha'.
    destruct HC2 as (l2 & Hl2 & Hi2 & Ht2).
    assert (El : l = l2).
    { rewrite process_timeout_eq in Hl. destruct (ptimeout st2); [|congruence]. cbn in Hl.
      rewrite nth_error_map, Hl2 in Hl. cbn in Hl. unfold pto_l in Hl. rewrite Ht2 in Hl. congruence. }
    subst l. destruct (HB2 St2 Hp' Ha' T l2 (fun x => x) Hl2) as [H|[H|[(H & _)|H]]]; [exact H|contradiction|discriminate|contradiction].
Qed.

(* ---------- C05_recovers ---------- *)
(* what "listener T accepts again" means in a state: registered, no deadline, reachable, and nothing left in
   its backlog whenever a worker is flagged available *)
Definition Recovered (st : state) (T : nat) : Prop :=
  exists l, nth_error (lsts st) T = Some l /\ l_reg l = true /\ l_to l = None /\ l_inject l = [] /\
            l_linked l = true /\ (available (av st) = true -> l_backlog l = []).

Lemma Recovered_of nl st T :
  FInv nl st -> stopped st = false -> paused st = false -> Calm T None st ->
  (available (av st) = true -> forall l, nth_error (lsts st) T = Some l -> l_backlog l = []) -> Recovered st T.
Proof.
  intros (_ & HR & _) Hs Hp (l & Hl & Hi & Ht) Hb. exists l. split; [exact Hl|].
  destruct HR as (_ & _ & H3). destruct (Forall_nth_error _ _ _ _ H3 Hl) as (A & _ & _ & D).
  split; [now apply D|]. split; [exact Ht|]. split; [exact Hi|]. split; [exact A|]. intros Ha. now apply Hb.
Qed.

(* (a) Resume: one command, one turn *)
Lemma recovers_resume nl st T l :
  FInv nl st -> stopped st = false -> ~ In IStop (wq st) ->
  nth_error (lsts st) T = Some l -> l_inject l = [] -> l_to l = None ->
  let st' := run L st [E (Command CResume); Turn []] in
  FInv nl st' /\ stopped st' = false /\ paused st' = false /\ Recovered st' T.
Proof.
  intros HF Hst Hns Hl Hi Ht st'. set (sR := step L st (E (Command CResume))).
  assert (HFR : FInv nl sR) by (apply step_b; auto).
  assert (HC : Calm T None sR) by (exists l; auto).
  destruct (turn_quiet nl sR T None HFR Hst) as (HF' & Hs' & Hp' & HC' & Hb' & _); [|exact HC|discriminate|].
  { unfold sR. cbn. intros Hin. apply in_app_or in Hin as [Hin|[Hin|[]]]; [auto|discriminate]. }
  change (step L sR (Turn [])) with st' in *.
  assert (Hp'' : paused st' = false).
  { rewrite Hp'. unfold sR. cbn [step env_step wake wpend set_wq wq paused]. apply final_paused_resume_last. }
  split; [exact HF'|]. split; [exact Hs'|]. split; [exact Hp''|].
  eapply Recovered_of; eauto.
Qed.

(* (b) back-off: 510 ms and two turns later *)
Lemma recovers_backoff nl st T l :
  FInv nl st -> stopped st = false -> paused st = false -> ~ In IStop (wq st) -> ~ In IPause (wq st) ->
  nth_error (lsts st) T = Some l -> l_inject l = [] ->
  let st' := run L st [Advance 510; Turn []; Turn []] in
  FInv nl st' /\ stopped st' = false /\ paused st' = false /\ Recovered st' T.
Proof.
  intros HF Hst Hpa Hns Hnp Hl Hi st'. set (sA := step L st (Advance 510)).
  assert (HFA : FInv nl sA) by (apply step_b; auto).
  assert (HC : Calm T (l_to l) sA) by (exists l; auto).
  destruct (turn_quiet nl sA T (l_to l) HFA Hst Hns HC) as (HF1 & Hs1 & Hp1 & HC1 & _ & Hw1 & _).
  { intros d Hd. split; [exact Hpa|]. split; [exact Hnp|]. destruct HF as (_ & HR & _).
    destruct (RInv_armed st l d HR (nth_error_In _ _ Hl) Hd) as (t & Hle & _). unfold sA. cbn. lia. }
  set (s1 := step L sA (Turn [])) in *.
  assert (Hp1' : paused s1 = false).
  { rewrite Hp1. change (paused sA) with (paused st). change (wq sA) with (wq st). rewrite Hpa.
    destruct (wpend sA); [now apply final_paused_no_pause|reflexivity]. }
  assert (Hns1 : ~ In IStop (wq s1)) by (intros Hin; apply Hns; exact (Hw1 _ Hin)).
  assert (Hnp1 : ~ In IPause (wq s1)) by (intros Hin; apply Hnp; exact (Hw1 _ Hin)).
  destruct (turn_quiet nl s1 T None HF1 Hs1 Hns1 HC1) as (HF2 & Hs2 & Hp2 & HC2 & Hb2 & _); [discriminate|].
  change (step L s1 (Turn [])) with st' in *.
  assert (Hp2' : paused st' = false).
  { rewrite Hp2, Hp1'. destruct (wpend s1); [now apply final_paused_no_pause|reflexivity]. }
  split; [exact HF2|]. split; [exact Hs2|]. split; [exact Hp2'|].
  eapply Recovered_of; eauto.
Qed.

(* the two statements for reachable states *)
Lemma recovers_resume_run W kinds os T l :
  (1 <= L)%Z -> 1 <= W <= 512 ->
  forallb nf_op os = true -> forallb (tok_ok (length kinds)) os = true -> forallb nwb_op os = true ->
  let st := run L (init W kinds) os in
  stopped st = false -> ~ In IStop (wq st) ->
  nth_error (lsts st) T = Some l -> l_inject l = [] -> (l_to l = None \/ paused st = true) ->
  let st' := run L st [E (Command CResume); Turn []] in
  stopped st' = false /\ paused st' = false /\ Recovered st' T.
Proof.
  intros HL HW Hnf Htok Hwb st Hst Hns Hl Hi Ht st'.
  pose proof (reachable_b W kinds os HL HW Hnf Htok Hwb) as HF. fold st in HF.
  assert (Ht' : l_to l = None).
  { destruct Ht as [Ht|Hp]; [exact Ht|]. destruct HF as (_ & (_ & _ & H3) & _).
    destruct (Forall_nth_error _ _ _ _ H3 Hl) as (_ & _ & C & _). now apply C. }
  exact (proj2 (recovers_resume (length kinds) st T l HF Hst Hns Hl Hi Ht')).
Qed.

Lemma recovers_backoff_run W kinds os T l :
  (1 <= L)%Z -> 1 <= W <= 512 ->
  forallb nf_op os = true -> forallb (tok_ok (length kinds)) os = true -> forallb nwb_op os = true ->
  let st := run L (init W kinds) os in
  stopped st = false -> paused st = false -> ~ In IStop (wq st) -> ~ In IPause (wq st) ->
  nth_error (lsts st) T = Some l -> l_inject l = [] ->
  let st' := run L st [Advance 510; Turn []; Turn []] in
  stopped st' = false /\ paused st' = false /\ Recovered st' T.
Proof.
  intros HL HW Hnf Htok Hwb st Hst Hpa Hns Hnp Hl Hi st'.
  pose proof (reachable_b W kinds os HL HW Hnf Htok Hwb) as HF. fold st in HF.
  exact (proj2 (recovers_backoff (length kinds) st T l HF Hst Hpa Hns Hnp Hl Hi)).
Qed.

End B.
