(* Props/C04.v — dispatch is round-robin over available workers only; 512 independent availability bits.
   ONLY statements, each closed by `exact <lemma>`, with Print Assumptions. *)
From Coq Require Import List ZArith NArith Bool.
From AN Require Import Model.Avail Model.Srv Proofs.AvailFacts Proofs.SrvInv Proofs.SrvLog Proofs.SrvTheorems.
From AN Require Import Proofs.AvailStartup.
Import ListNotations.

(* The log of a run (newest first) contains a ghost event for every worker the accept loop passes over
   (EvSkip) and one for every dispatch (EvDispatch).  In every fault-free run, every window [seg] of the log
   that contains no skip — i.e. during which no worker the rotation met was flagged unavailable — sends its
   (at most W) connections to pairwise distinct workers, namely to cur, cur+1, ... in cyclic order. *)
Theorem C04_rr : forall (L : Z) W kinds os post seg pre,
  (1 <= L)%Z -> 1 <= W <= 512 ->
  forallb nf_op os = true -> forallb (tok_ok (length kinds)) os = true ->
  trace (run L (init W kinds) os) = post ++ seg ++ pre ->
  forallb (fun e => negb (is_skip e)) seg = true -> length (dtargets seg) <= W ->
  NoDup (dtargets seg) /\
  exists cur, cur < W /\ dtargets seg = map (fun i => (cur + i) mod W) (seq 0 (length (dtargets seg))).
Proof. exact rr_window. Qed.

(* Every dispatch of a fault-free run went to a worker that had fewer than L connections in progress (a
   saturated worker receives nothing), and every worker that was passed over was at its limit or had released
   a connection whose notice the accept loop had not processed yet. *)
Theorem C04_skip : forall (L : Z) W kinds os e,
  (1 <= L)%Z -> 1 <= W <= 512 ->
  forallb nf_op os = true -> forallb (tok_ok (length kinds)) os = true ->
  In e (trace (run L (init W kinds) os)) ->
  match e with
  | EvDispatch _ _ _ _ n => (Z.of_nat n < L)%Z
  | EvSkip _ n pend => Z.of_nat n = L \/ pend = true
  | _ => True
  end.
Proof. exact log_events_ok. Qed.

(* the ghost n of a dispatch event is the target's in-progress count before the send, by definition *)
Example C04_ghost_example :
  let st := run 2 (init 2 [false]) [E (Connect 0 1); E (Connect 0 2); E (Connect 0 3); E (Connect 0 4); E (Connect 0 5); Turn []] in
  rev (trace st) =
    [EvReady [0] false; EvDispatch 1 0 0 0 0; EvDispatch 2 0 1 1 0; EvDispatch 3 0 0 0 1; EvDispatch 4 0 1 1 1].
Proof. vm_compute. reflexivity. Qed.

(* ---- the availability bitset (bit-exact model of [u128; 4]) ---- *)
(* setting the flag of worker i changes the flag of worker i only, for all i, j in 0..512 *)
Theorem C04_bits_independent : forall a i j v a',
  (i < 512)%N -> (j < 512)%N -> set a i v = Some a' ->
  get a' j = if (i =? j)%N then Some v else get a j.
Proof. exact get_set. Qed.

Theorem C04_bits_total : forall a i v, (i < 512)%N -> exists a', set a i v = Some a'.
Proof. exact set_total. Qed.

(* the documented maximum: index 512 and above panics *)
Theorem C04_bits_panic : forall a i v, (512 <= i)%N -> set a i v = None /\ get a i = None.
Proof. intros a i v H. split; [now apply set_panics|now apply get_panics]. Qed.

(* `available()` is true exactly when one of the 512 flags is set *)
Theorem C04_bits_any : forall a, wf a ->
  (available a = true <-> exists i, (i < 512)%N /\ get a i = Some true).
Proof. exact available_iff. Qed.

Theorem C04_bits_wf : forall a i v a', wf a -> set a i v = Some a' -> wf a'.
Proof. exact wf_set. Qed.

Theorem C04_bits_offset : forall i, (i < 512)%N -> offset i = Some ((i / 128)%N, (i mod 128)%N).
Proof. exact offset_spec. Qed.

Example C04_bits_example :
  exists a, set empty 129 true = Some a /\ get a 129 = Some true /\ get a 1 = Some false /\ get a 257 = Some false
            /\ available a = true /\ wf a.
Proof. eexists. split; [reflexivity|]. repeat split; vm_compute; auto. Qed.

(* Start-up: `Availability::set_available_all` — with W <= 512 workers exactly the indices below W are marked available, whatever
   128-bit word they fall into (`init` marks every handle, as `Accept::new_with_sockets` does). *)
Theorem C04_startup_all_available : forall (W : nat) (kinds : list bool) (j : N),
  (W <= 512)%nat -> (j < 512)%N ->
  getb (av (init W kinds)) j = (j <? N.of_nat W)%N.
Proof. exact startup_all_available. Qed.

Example C04_startup_example :
  map (getb (av (init 130 [false]))) [0; 127; 128; 129; 130; 511]%N = [true; true; true; true; false; false].
Proof. vm_compute. reflexivity. Qed.


Print Assumptions C04_rr.
Print Assumptions C04_skip.
Print Assumptions C04_bits_independent.
Print Assumptions C04_bits_total.
Print Assumptions C04_bits_panic.
Print Assumptions C04_bits_any.
Print Assumptions C04_bits_wf.
Print Assumptions C04_bits_offset.
Print Assumptions C04_startup_all_available.
