(* Proofs/SrvE2EFacts.v — the end-to-end oracle (Model/SrvE2E.v) only ever computes states of ordinary runs:
   [e2e_run] = [run] of the script [e2e_script] builds, and that script never injects a WouldBlock, so the all-scripts
   invariants (RInv, the coverage invariant of SrvStrand.v) hold in every state the `bld` stream compares the real server with. *)
From Coq Require Import List Arith ZArith NArith Bool Lia.
From AN Require Import Model.Srv Model.SrvE2E Proofs.SrvInv Proofs.SrvPause Proofs.SrvPauseB Proofs.SrvStrand.
Import ListNotations.

Section F.
Variable L : Z.

Lemma run_app st a b : run L st (a ++ b) = run L (run L st a) b.
Proof. unfold run. apply fold_left_app. Qed.

(* the oracle's state after a list of scenario operations *)
Fixpoint e2e_run (st : state) (next : N) (ops : list e2e_op) : state :=
  match ops with
  | [] => st
  | o :: t => let '(st', n') := e2e_step L false st next o in e2e_run st' n' t
  end.

Theorem e2e_run_is_run : forall ops st next, e2e_run st next ops = run L st (e2e_script L st next ops).
Proof.
  induction ops as [|o t IH]; intros st next; cbn [e2e_run e2e_script]; [reflexivity|].
  unfold e2e_step. destruct (e2e_ops L false st next o) as [os n']. rewrite run_app. apply IH.
Qed.

(* ---------- the script never injects a WouldBlock ---------- *)
Definition NW (os : list op) : Prop := forallb nwb_op os = true.

Lemma NW_app a b : NW a -> NW b -> NW (a ++ b).
Proof. unfold NW. intros Ha Hb. rewrite forallb_app, Ha, Hb. reflexivity. Qed.

Lemma NW_cons o os : nwb_op o = true -> NW os -> NW (o :: os).
Proof. unfold NW. intros Ho Hos. cbn. now rewrite Ho, Hos. Qed.

Lemma NW_repeat o n : nwb_op o = true -> NW (repeat o n).
Proof. intros Ho. induction n as [|n IH]; cbn; [reflexivity|]. now apply NW_cons. Qed.

Lemma NW_flat_map {A} (f : A -> list op) l : (forall x, NW (f x)) -> NW (flat_map f l).
Proof. intros H. induction l as [|x l IH]; cbn; [reflexivity|]. apply NW_app; auto. Qed.

Lemma NW_map {A} (f : A -> op) l : (forall x, nwb_op (f x) = true) -> NW (map f l).
Proof. intros H. induction l as [|x l IH]; cbn; [reflexivity|]. apply NW_cons; auto. Qed.

Lemma picks_nw st : NW (picks_ops st).
Proof.
  unfold picks_ops. apply NW_flat_map. intros g. destruct (nth_error (ws st) g) as [w|]; [|reflexivity].
  destruct (w_open w); [|reflexivity]. now apply NW_repeat.
Qed.

Lemma round_nw blk st : NW (round_ops L blk st).
Proof. unfold round_ops. apply NW_cons; [reflexivity|]. destruct blk; [reflexivity | apply picks_nw]. Qed.

Lemma settle_nw blk k : forall st, NW (settle_ops L blk k st).
Proof. induction k as [|k IH]; intros st; cbn [settle_ops]; [reflexivity|]. apply NW_app; [apply round_nw|apply IH]. Qed.

Lemma settle_faults_nw blk k : forall handled st, NW (settle_faults_ops L blk k handled st).
Proof.
  induction k as [|k IH]; intros handled st; cbn [settle_faults_ops]; [reflexivity|].
  destruct (new_faults handled st) as [|f fs]; [reflexivity|].
  apply NW_app; [apply NW_map; reflexivity|]. apply NW_app; [apply settle_nw|apply IH].
Qed.

Lemma settled_nw blk st first : NW first -> NW (settled_ops L blk st first).
Proof.
  intros Hf. unfold settled_ops. apply NW_app; [exact Hf|]. apply NW_app; [apply settle_nw|apply settle_faults_nw].
Qed.

Lemma kill_nw blk st tok cid : NW (kill_ops L blk st tok cid).
Proof.
  unfold kill_ops.
  assert (H1 : NW (E (Connect tok cid) :: settle_ops L blk 4 (step L st (E (Connect tok cid))))).
  { apply NW_cons; [reflexivity|apply settle_nw]. }
  destruct (holder cid 0 (ws _)) as [g|]; [|exact H1].
  destruct (nth_error (ws _) g) as [w|]; [|exact H1].
  apply NW_app; [exact H1|]. apply NW_cons; [reflexivity|]. apply NW_cons; [reflexivity|]. apply NW_map. reflexivity.
Qed.

Lemma die_nw st : NW (die_ops st).
Proof.
  unfold die_ops. destruct (handles st) as [|g t]; [reflexivity|].
  destruct (nth_error (ws st) g) as [w|]; [|reflexivity]. destruct (w_open w); [|reflexivity].
  apply NW_cons; [reflexivity|]. apply NW_map. reflexivity.
Qed.

Lemma e2e_ops_nw blk st next o : NW (fst (e2e_ops L blk st next o)).
Proof.
  destruct o; cbn [e2e_ops fst]; try (apply settled_nw; repeat (apply NW_cons; [reflexivity|]); reflexivity).
  - destruct (holder cid 0 (ws st)); cbn [fst]; [|reflexivity].
    apply settled_nw. apply NW_cons; reflexivity.
  - apply settled_nw, NW_map. intros [|]; reflexivity.
  - apply settled_nw, kill_nw.
  - apply settled_nw. apply NW_app; [apply kill_nw|]. apply NW_cons; reflexivity.
  - apply settled_nw, die_nw.
Qed.

Theorem e2e_script_nw : forall ops st next, NW (e2e_script L st next ops).
Proof.
  induction ops as [|o t IH]; intros st next; cbn [e2e_script]; [reflexivity|].
  pose proof (e2e_ops_nw false st next o) as H. destruct (e2e_ops L false st next o) as [os n']. cbn [fst] in H.
  apply NW_app; [exact H|apply IH].
Qed.

(* ---------- the same with abortive clients and back-pressure episodes ---------- *)
Fixpoint e2e_run_ab (st : state) (next : N) (ops : list (bool * list N * e2e_op)) : state :=
  match ops with
  | [] => st
  | (blk, ab, o) :: t => let '(st', n') := e2e_step_ab L blk ab st next o in e2e_run_ab st' n' t
  end.

Lemma abortive_nw blk fuel : forall ab st next, NW (abortive_ops L blk fuel ab st next).
Proof.
  induction fuel as [|f IH]; intros ab st next; cbn [abortive_ops]; [reflexivity|].
  destruct (find (in_progress st) ab) as [c|]; [|reflexivity].
  apply NW_app; [apply e2e_ops_nw | apply IH].
Qed.

Lemma e2e_ops_ab_nw blk ab st next o : NW (fst (e2e_ops_ab L blk ab st next o)).
Proof.
  unfold e2e_ops_ab. pose proof (e2e_ops_nw blk st next o) as H. destruct (e2e_ops L blk st next o) as [os n']. cbn [fst] in *.
  apply NW_app; [exact H | apply abortive_nw].
Qed.

Theorem e2e_script_ab_nw : forall ops st next, NW (e2e_script_ab L st next ops).
Proof.
  induction ops as [|[[blk ab] o] t IH]; intros st next; cbn [e2e_script_ab]; [reflexivity|].
  pose proof (e2e_ops_ab_nw blk ab st next o) as H. destruct (e2e_ops_ab L blk ab st next o) as [os n']. cbn [fst] in H.
  apply NW_app; [exact H | apply IH].
Qed.

Theorem e2e_run_ab_is_run : forall ops st next, e2e_run_ab st next ops = run L st (e2e_script_ab L st next ops).
Proof.
  induction ops as [|[[blk ab] o] t IH]; intros st next; cbn [e2e_run_ab e2e_script_ab]; [reflexivity|].
  unfold e2e_step_ab. destruct (e2e_ops_ab L blk ab st next o) as [os n']. rewrite run_app. apply IH.
Qed.

Theorem e2e_ab_state_inv W kinds ops : AInv (e2e_run_ab (init W kinds) 1%N ops).
Proof.
  rewrite e2e_run_ab_is_run. apply reachable_a, e2e_script_ab_nw.
Qed.

(* ---------- so every invariant of runs holds in every state the oracle computes ---------- *)
Theorem e2e_states_are_reachable W kinds ops :
  exists os, forallb nwb_op os = true /\ e2e_run (init W kinds) 1%N ops = run L (init W kinds) os.
Proof.
  exists (e2e_script L (init W kinds) 1%N ops). split; [apply e2e_script_nw|apply e2e_run_is_run].
Qed.

Theorem e2e_state_inv W kinds ops : AInv (e2e_run (init W kinds) 1%N ops).
Proof.
  destruct (e2e_states_are_reachable W kinds ops) as (os & Hnw & ->). now apply reachable_a.
Qed.

End F.
