(* Extraction of the ByteString model (ExtrOcamlBasic only; numbers stay positive/Z/N/nat). *)
From Coq Require Import Extraction ExtrOcamlBasic.
From AN Require Import Model.BStr.
Extraction Language OCaml.
Extraction "../ocaml/bstr/gen.ml"
  valid boundary scalar encode_scalar
  str_from_utf8 str_split_at str_slice str_eq str_cmp str_hash_input str_display str_to_string
  try_from_k from_k as_bytes into_bytes deref split_at slice_ref
  eq cmp hash_input display to_string into_string
  init step run op_ok c20_ok.
