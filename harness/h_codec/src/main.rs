//! Correspondence harness for actix-codec (C13, C14, C15).
//! One case per stdin line, one trace per stdout line; same text format as ocaml/codec/driver.ml.
//!
//! modes: c15 / c15enc   LinesCodec on one buffer
//!        c13            `<codec>;<read script>`: the real `Framed` over a scripted `AsyncRead`, polled
//!                       through `Stream::poll_next` until `None` (bounded) plus two more polls
//!        c14            `<codec>;<write answers>;<flush answers>;<shutdown answers>;<ops>`: the real
//!                       `Framed` over a scripted `AsyncWrite`, driven through the four `Sink` methods
use std::{
    collections::VecDeque,
    io::{self, BufRead, Write},
    pin::Pin,
    sync::Arc,
    task::{Context, Poll, Wake, Waker},
};

use actix_codec::{AsyncRead, AsyncWrite, BytesCodec, Decoder, Encoder, Framed, LinesCodec, ReadBuf};
use bytes::{Bytes, BytesMut};
use futures_core::Stream;
use futures_sink::Sink;

fn unhex(s: &str) -> Vec<u8> {
    (0..s.len() / 2)
        .map(|i| u8::from_str_radix(&s[2 * i..2 * i + 2], 16).unwrap())
        .collect()
}
fn hex(b: &[u8]) -> String {
    b.iter().map(|x| format!("{:02x}", x)).collect()
}

fn show_items(items: &[Result<String, ()>]) -> String {
    items
        .iter()
        .map(|it| match it {
            Ok(s) => format!("O:{}", hex(s.as_bytes())),
            Err(()) => "E".to_string(),
        })
        .collect::<Vec<_>>()
        .join(",")
}

/// decode until None, then decode_eof until None; both loops are bounded so a codec that
/// never stops producing shows up as a trace difference instead of a hang.
fn run_lines(buf: &mut BytesMut) -> String {
    let mut codec = LinesCodec::default();
    let bound = buf.len() + 3;
    let mut a = Vec::new();
    for _ in 0..bound {
        match codec.decode(buf) {
            Ok(Some(s)) => a.push(Ok(s)),
            Ok(None) => break,
            Err(_) => a.push(Err(())),
        }
    }
    let mut b = Vec::new();
    for _ in 0..bound {
        match codec.decode_eof(buf) {
            Ok(Some(s)) => b.push(Ok(s)),
            Ok(None) => break,
            Err(_) => b.push(Err(())),
        }
    }
    format!("{}|{}|{}", show_items(&a), show_items(&b), hex(&buf[..]))
}

fn c15(line: &str) -> String {
    let mut buf = BytesMut::from(&unhex(line)[..]);
    run_lines(&mut buf)
}

/// decode_eof only, until None, on the whole input: what a Framed does when the transport reports EOF before the
/// buffered bytes were ever decoded
fn c15eof(line: &str) -> String {
    let mut buf = BytesMut::from(&unhex(line)[..]);
    let mut codec = LinesCodec::default();
    let bound = buf.len() + 3;
    let mut b = Vec::new();
    for _ in 0..bound {
        match codec.decode_eof(&mut buf) {
            Ok(Some(s)) => b.push(Ok(s)),
            Ok(None) => break,
            Err(_) => b.push(Err(())),
        }
    }
    format!("{}|{}", show_items(&b), hex(&buf[..]))
}

fn c15enc(line: &str) -> String {
    let mut codec = LinesCodec::default();
    let mut buf = BytesMut::new();
    if !line.is_empty() {
        for h in line.split(',') {
            let s = String::from_utf8(unhex(h)).expect("c15enc cases are valid UTF-8");
            codec.encode(s, &mut buf).unwrap();
        }
    }
    let enc = hex(&buf[..]);
    format!("{}#{}", enc, run_lines(&mut buf))
}

// ------------------------------------------------------------------------------------------
// shared by c13 / c14
// ------------------------------------------------------------------------------------------
fn crc32(data: &[u8]) -> u32 {
    let mut c: u32 = 0xFFFF_FFFF;
    for &b in data {
        c ^= b as u32;
        for _ in 0..8 {
            c = if c & 1 == 1 { 0xEDB8_8320 ^ (c >> 1) } else { c >> 1 };
        }
    }
    c ^ 0xFFFF_FFFF
}

/// short byte strings in hex, long ones as `#<len>.<crc32>`
fn blob(b: &[u8]) -> String {
    if b.len() <= 24 {
        hex(b)
    } else {
        format!("#{}.{:08x}", b.len(), crc32(b))
    }
}

struct NoopWake;
impl Wake for NoopWake {
    fn wake(self: Arc<Self>) {}
}

fn split_nonempty(s: &str, c: char) -> Vec<&str> {
    if s.is_empty() {
        Vec::new()
    } else {
        s.split(c).collect()
    }
}

const MOCK_ERR: io::ErrorKind = io::ErrorKind::BrokenPipe;
fn mock_err() -> io::Error {
    io::Error::new(MOCK_ERR, "scripted transport error")
}

enum Rd {
    Chunk(Vec<u8>),
    Pending,
    Eof,
    Err,
}
#[derive(Clone, Copy)]
enum WAns {
    Accept(usize),
    Pending,
    Zero,
    Err,
}
#[derive(Clone, Copy)]
enum FAns {
    Ok,
    Pending,
    Err,
}

/// The scripted transport.  Reads: one script entry per `poll_read`; an exhausted script reads 0 bytes.
/// Writes: one answer per `poll_write`/`poll_flush`/`poll_shutdown`; exhausted scripts accept
/// everything / answer Ok.  Everything the transport sees is recorded in `events`.
#[derive(Default)]
struct Mock {
    rd: VecDeque<Rd>,
    ws: VecDeque<WAns>,
    fs: VecDeque<FAns>,
    ss: VecDeque<FAns>,
    events: Vec<String>,
    /// a scripted chunk did not fit into the ReadBuf it was offered and was delivered in pieces
    short: bool,
    /// a read was offered less than LW = 1024 bytes of room
    low_room: bool,
    /// number of `poll_read` calls so far: selects how the next one handles the ReadBuf
    reads: usize,
}

impl AsyncRead for Mock {
    fn poll_read(
        mut self: Pin<&mut Self>,
        cx: &mut Context<'_>,
        buf: &mut ReadBuf<'_>,
    ) -> Poll<io::Result<()>> {
        if buf.remaining() < 1024 {
            self.low_room = true;
        }
        // Three legal ways of using a ReadBuf, in rotation: `put_slice`; initialise the whole unfilled part first, copy,
        // `advance` (what adapters around a blocking `read(&mut [u8])` and TLS streams do); initialise a little more than is
        // filled.  "Initialised" is not "filled": only the filled bytes were read — also when the answer is Pending, an error
        // or end of stream.
        let style = self.reads % 3;
        self.reads += 1;
        if style == 1 {
            buf.initialize_unfilled();
        } else if style == 2 {
            let room = buf.remaining();
            buf.initialize_unfilled_to(room.min(13));
        }
        match self.rd.pop_front() {
            None | Some(Rd::Eof) => Poll::Ready(Ok(())),
            Some(Rd::Pending) => {
                cx.waker().wake_by_ref();
                Poll::Pending
            }
            Some(Rd::Err) => Poll::Ready(Err(mock_err())),
            Some(Rd::Chunk(data)) => {
                let n = data.len().min(buf.remaining());
                if style == 0 {
                    buf.put_slice(&data[..n]);
                } else {
                    let more = (n + 5).min(buf.remaining());
                    buf.initialize_unfilled_to(more)[..n].copy_from_slice(&data[..n]);
                    buf.advance(n);
                }
                if n < data.len() {
                    self.short = true;
                    self.rd.push_front(Rd::Chunk(data[n..].to_vec()));
                }
                Poll::Ready(Ok(()))
            }
        }
    }
}

fn fans(tag: &str, a: Option<FAns>, cx: &mut Context<'_>, ev: &mut Vec<String>) -> Poll<io::Result<()>> {
    match a.unwrap_or(FAns::Ok) {
        FAns::Ok => {
            ev.push(format!("{tag}:o"));
            Poll::Ready(Ok(()))
        }
        FAns::Pending => {
            ev.push(format!("{tag}:p"));
            cx.waker().wake_by_ref();
            Poll::Pending
        }
        FAns::Err => {
            ev.push(format!("{tag}:e"));
            Poll::Ready(Err(mock_err()))
        }
    }
}

impl AsyncWrite for Mock {
    fn poll_write(mut self: Pin<&mut Self>, cx: &mut Context<'_>, buf: &[u8]) -> Poll<io::Result<usize>> {
        let ans = self.ws.pop_front().unwrap_or(WAns::Accept(usize::MAX));
        match ans {
            WAns::Pending => {
                self.events.push("wp".into());
                cx.waker().wake_by_ref();
                Poll::Pending
            }
            WAns::Err => {
                self.events.push("we".into());
                Poll::Ready(Err(mock_err()))
            }
            WAns::Zero | WAns::Accept(0) => {
                self.events.push("wz".into());
                Poll::Ready(Ok(0))
            }
            WAns::Accept(k) => {
                let n = k.min(buf.len());
                if n == 0 {
                    // Framed never offers an empty buffer; make it visible if it ever does
                    self.events.push("w-empty".into());
                } else {
                    self.events.push(format!("w:{}", blob(&buf[..n])));
                }
                Poll::Ready(Ok(n))
            }
        }
    }
    fn poll_flush(mut self: Pin<&mut Self>, cx: &mut Context<'_>) -> Poll<io::Result<()>> {
        let a = self.fs.pop_front();
        fans("f", a, cx, &mut self.events)
    }
    fn poll_shutdown(mut self: Pin<&mut Self>, cx: &mut Context<'_>) -> Poll<io::Result<()>> {
        let a = self.ss.pop_front();
        fans("s", a, cx, &mut self.events)
    }
}

// ---- the length-prefixed test codec (modelled as lp_decode / lp_decode_eof / lpd_decode_eof /
//      lp_encode in coq/Model/Framed.v) ----
#[derive(Debug)]
enum LpError {
    Io(io::Error),
    BadHeader,
    Truncated,
    TooLong,
}
impl From<io::Error> for LpError {
    fn from(e: io::Error) -> Self {
        LpError::Io(e)
    }
}

/// frame = one length byte n (0..=254) followed by n payload bytes
#[derive(Clone)]
struct LpCodec {
    /// use the provided `Decoder::decode_eof` instead of the codec's own
    default_eof: bool,
    /// at the end of the stream, once nothing is left to decode, `decode_eof` yields an end marker (a 255-byte frame, which no
    /// encoded frame can be) — on an empty buffer, every time it is asked (modelled as `lps_decode_eof`)
    trailer: bool,
}

fn lp_decode(src: &mut BytesMut) -> Result<Option<Vec<u8>>, LpError> {
    if src.is_empty() {
        return Ok(None);
    }
    let n = src[0] as usize;
    if n == 255 {
        let _ = src.split_to(1);
        return Err(LpError::BadHeader);
    }
    if src.len() - 1 < n {
        return Ok(None);
    }
    let _ = src.split_to(1);
    Ok(Some(src.split_to(n).to_vec()))
}

/// `LpCodec{default_eof: true}` must go through the trait's provided method, so it is a separate type
struct LpDefaultEof;
impl Decoder for LpDefaultEof {
    type Item = Vec<u8>;
    type Error = LpError;
    fn decode(&mut self, src: &mut BytesMut) -> Result<Option<Vec<u8>>, LpError> {
        lp_decode(src)
    }
}

impl Decoder for LpCodec {
    type Item = Vec<u8>;
    type Error = LpError;
    fn decode(&mut self, src: &mut BytesMut) -> Result<Option<Vec<u8>>, LpError> {
        lp_decode(src)
    }
    fn decode_eof(&mut self, src: &mut BytesMut) -> Result<Option<Vec<u8>>, LpError> {
        if self.default_eof {
            return LpDefaultEof.decode_eof(src);
        }
        match lp_decode(src)? {
            Some(f) => Ok(Some(f)),
            None if src.is_empty() && self.trailer => Ok(Some(vec![0x45; 255])),
            None if src.is_empty() => Ok(None),
            None => {
                src.clear();
                Err(LpError::Truncated)
            }
        }
    }
}

impl Encoder<Vec<u8>> for LpCodec {
    type Error = LpError;
    fn encode(&mut self, item: Vec<u8>, dst: &mut BytesMut) -> Result<(), LpError> {
        if item.len() > 254 {
            return Err(LpError::TooLong);
        }
        dst.extend_from_slice(&[item.len() as u8]);
        dst.extend_from_slice(&item);
        Ok(())
    }
}

/// counts the Decoder calls Framed makes (a codec implementation observes them)
#[derive(Clone)]
struct Counting<C> {
    inner: C,
    calls: usize,
}
impl<C: Decoder> Decoder for Counting<C> {
    type Item = C::Item;
    type Error = C::Error;
    fn decode(&mut self, src: &mut BytesMut) -> Result<Option<C::Item>, C::Error> {
        self.calls += 1;
        self.inner.decode(src)
    }
    fn decode_eof(&mut self, src: &mut BytesMut) -> Result<Option<C::Item>, C::Error> {
        self.calls += 1;
        self.inner.decode_eof(src)
    }
}

impl<I, C: Encoder<I>> Encoder<I> for Counting<C> {
    type Error = <C as Encoder<I>>::Error;
    fn encode(&mut self, item: I, dst: &mut BytesMut) -> Result<(), Self::Error> {
        self.inner.encode(item, dst)
    }
}

/// One of the state-preserving conversions of `Framed`, chosen by `k`: all of them must carry both buffers and the
/// flags over unchanged.
fn convert<T, U: Clone>(f: Framed<T, U>, k: usize) -> Framed<T, U> {
    match k % 4 {
        0 => Framed::from_parts(f.into_parts()),
        1 => f.into_map_io(|io| io),
        2 => f.into_map_codec(|c| c),
        _ => {
            let c = f.codec_ref().clone();
            f.replace_codec(c)
        }
    }
}

// ---- c13 ----
fn io_item(e: &io::Error, decode_tag: &str) -> String {
    if e.kind() == MOCK_ERR {
        "X".into()
    } else if e.kind() == io::ErrorKind::Other {
        "IR".into() // provided decode_eof: "bytes remaining on stream"
    } else {
        format!("I{decode_tag}")
    }
}

fn run_c13<C: Decoder + Encoder<W> + Unpin + Clone, W>(
    codec: C,
    conv: bool,
    duplex: Option<usize>,
    toks: &[&str],
    show: fn(Result<<C as Decoder>::Item, <C as Decoder>::Error>) -> String,
    mk: fn(usize) -> W,
) -> String
where
    <C as Encoder<W>>::Error: From<io::Error>,
{
    let mut rd = VecDeque::new();
    let mut nbytes = 0;
    // a leading b<hex>: build the Framed from parts with a pre-filled read buffer
    let (pre, toks) = match toks.first() {
        Some(t) if t.as_bytes()[0] == b'b' => (Some(unhex(&t[1..])), &toks[1..]),
        _ => (None, toks),
    };
    nbytes += pre.as_ref().map_or(0, |p| p.len());
    for t in toks {
        rd.push_back(match t.as_bytes()[0] {
            b'c' => {
                let b = unhex(&t[1..]);
                nbytes += b.len();
                Rd::Chunk(b)
            }
            b'p' => Rd::Pending,
            b'z' => Rd::Eof,
            b'e' => Rd::Err,
            _ => panic!("bad read token {t}"),
        });
    }
    let fuel = toks.len() + nbytes + 8;
    let mut mock = Mock { rd, ..Mock::default() };
    if let Some(seed) = duplex {
        // the write direction of the transport misbehaves on its own schedule (partial writes, Pending, zero-length writes, errors;
        // failing flushes): whatever happens to what is WRITTEN, what is read and decoded stays the same
        let mut h = (seed as u64 + 1).wrapping_mul(0x9E3779B97F4A7C15);
        for _ in 0..16 {
            h = h.wrapping_mul(6364136223846793005).wrapping_add(1442695040888963407);
            mock.ws.push_back(match (h >> 33) % 6 {
                0 => WAns::Err,
                1 => WAns::Zero,
                2 => WAns::Pending,
                k => WAns::Accept(k as usize),
            });
            if (h >> 40) % 4 == 0 {
                mock.fs.push_back(if (h >> 45) % 2 == 0 { FAns::Err } else { FAns::Pending });
            }
        }
    }
    let mut framed = match pre {
        None => Framed::new(mock, Counting { inner: codec, calls: 0 }),
        Some(p) => Framed::from_parts(actix_codec::FramedParts::with_read_buf(
            mock,
            Counting { inner: codec, calls: 0 },
            BytesMut::from(&p[..]),
        )),
    };
    let waker = Waker::from(Arc::new(NoopWake));
    let mut cx = Context::from_waker(&waker);
    let mut out: Vec<String> = Vec::new();
    let mut extra: Option<usize> = None; // polls left after the first None
    let mut polls = 0;
    loop {
        match extra {
            Some(0) => break,
            Some(k) => extra = Some(k - 1),
            None => {
                if polls == fuel {
                    break;
                }
            }
        }
        polls += 1;
        if conv {
            framed = convert(framed, polls);
        }
        if let Some(seed) = duplex {
            // the same Framed used as a Sink between the reads: the write half (readiness, sends, flushes, close = flush + shutdown
            // of the WRITE direction) must leave what is read and decoded alone
            let h = (seed as u64 * 1000003 + polls as u64).wrapping_mul(0x9E3779B97F4A7C15) >> 33;
            match h % 7 {
                2 => {
                    let _ = Sink::<W>::poll_ready(Pin::new(&mut framed), &mut cx);
                }
                3 => {
                    let _ = Sink::<W>::poll_flush(Pin::new(&mut framed), &mut cx);
                }
                4 => {
                    let _ = Sink::<W>::poll_close(Pin::new(&mut framed), &mut cx);
                }
                5 | 6 => {
                    if framed.is_write_ready() {
                        let _ = Sink::<W>::start_send(Pin::new(&mut framed), mk(polls % 9));
                    }
                }
                _ => {}
            }
        }
        let before = framed.codec_ref().calls;
        let r = Pin::new(&mut framed).poll_next(&mut cx);
        let calls = framed.codec_ref().calls - before;
        let txt = match r {
            Poll::Pending => "P".to_string(),
            Poll::Ready(None) => {
                if extra.is_none() {
                    extra = Some(2);
                }
                "N".to_string()
            }
            Poll::Ready(Some(it)) => show(it),
        };
        out.push(format!("{txt}@{calls}"));
    }
    let mut s = out.join(",");
    if framed.io_ref().short {
        s.push_str("|short");
    }
    if framed.io_ref().low_room {
        s.push_str("|room<LW");
    }
    s
}

fn c13(line: &str) -> String {
    let (codec, script) = line.split_once(';').expect("c13: <codec>;<script>");
    let (codec, conv) = match codec.strip_suffix("+x") {
        Some(c) => (c, true),
        None => (codec, false),
    };
    // "<codec>+w<seed>": duplex use
    let (codec, duplex) = match codec.split_once("+w") {
        Some((c, sd)) => (c, Some(sd.parse::<usize>().expect("+w<seed>"))),
        None => (codec, None),
    };
    let toks = split_nonempty(script, ',');
    fn show_lp(it: Result<Vec<u8>, LpError>) -> String {
        match it {
            Ok(p) if p.len() == 255 => "IS".into(),
            Ok(p) => format!("IO:{}", blob(&p)),
            Err(LpError::Io(e)) => io_item(&e, "?"),
            Err(LpError::BadHeader) => "IH".into(),
            Err(LpError::Truncated) => "IT".into(),
            Err(LpError::TooLong) => "I?".into(),
        }
    }
    match codec {
        "lines" => run_c13(
            LinesCodec::default(),
            conv,
            duplex,
            &toks,
            |it| match it {
                Ok(s) => format!("IO:{}", blob(s.as_bytes())),
                Err(e) => io_item(&e, "E"),
            },
            |k| String::from_utf8(payload(k, k)).unwrap(),
        ),
        "bytes" => run_c13(
            BytesCodec,
            conv,
            duplex,
            &toks,
            |it| match it {
                Ok(b) => format!("IO:{}", blob(&b[..])),
                Err(e) => io_item(&e, "?"),
            },
            |k| Bytes::from(payload(k, k)),
        ),
        "lp" => run_c13(LpCodec { default_eof: false, trailer: false }, conv, duplex, &toks, show_lp, |k| payload(k, k)),
        "lpd" => run_c13(LpCodec { default_eof: true, trailer: false }, conv, duplex, &toks, show_lp, |k| payload(k, k)),
        "lps" => run_c13(LpCodec { default_eof: false, trailer: true }, conv, duplex, &toks, show_lp, |k| payload(k, k)),
        c => panic!("unknown codec {c}"),
    }
}

// ---- c14 ----
/// payload of an item: byte j = 'a' + (seed + j) mod 26
fn payload(len: usize, seed: usize) -> Vec<u8> {
    (0..len).map(|j| 97 + ((seed + j) % 26) as u8).collect()
}

fn run_c14<C, I>(
    codec: C,
    conv: bool,
    duplex: Option<usize>,
    fields: &[&str],
    make: fn(Vec<u8>) -> I,
    classify: fn(&<C as Encoder<I>>::Error) -> &'static str,
) -> String
where
    C: Decoder + Encoder<I> + Clone + Unpin,
    <C as Encoder<I>>::Error: From<io::Error>,
{
    let int = |t: &str| t[1..].parse::<usize>().expect("number");
    let ws = split_nonempty(fields[0], ',')
        .into_iter()
        .map(|t| match t.as_bytes()[0] {
            b'a' => WAns::Accept(int(t)),
            b'p' => WAns::Pending,
            b'z' => WAns::Zero,
            b'e' => WAns::Err,
            _ => panic!("bad write answer {t}"),
        })
        .collect();
    let fa = |s: &str| -> VecDeque<FAns> {
        split_nonempty(s, ',')
            .into_iter()
            .map(|t| match t {
                "o" => FAns::Ok,
                "p" => FAns::Pending,
                "e" => FAns::Err,
                _ => panic!("bad flush answer {t}"),
            })
            .collect()
    };
    let mut mock = Mock { ws, fs: fa(fields[1]), ss: fa(fields[2]), ..Mock::default() };
    if let Some(seed) = duplex {
        // duplex use: the peer sends while we write — a read script of chunks, Pendings, an I/O error or an early EOF
        for j in 0..6 {
            let h = ((seed * 31 + j) as u64).wrapping_mul(0x9E3779B97F4A7C15) >> 40;
            mock.rd.push_back(match h % 6 {
                0 => Rd::Pending,
                1 => Rd::Chunk(b"ab\ncd".to_vec()),
                2 => Rd::Chunk(payload(1 + (h as usize >> 4) % 3000, j)),
                3 => Rd::Chunk(vec![0, 2, 65, 66, 0]),
                4 if j > 3 => Rd::Err,
                _ => Rd::Chunk(b"\n".to_vec()),
            });
        }
    }
    let mut framed = Framed::new(mock, codec);
    let waker = Waker::from(Arc::new(NoopWake));
    let mut cx = Context::from_waker(&waker);
    let mut out: Vec<String> = Vec::new();
    for (k, tok) in split_nonempty(fields[3], ',').into_iter().enumerate() {
        if conv {
            framed = convert(framed, k);
        }
        if let Some(seed) = duplex {
            // reads on the same Framed between the Sink calls: they must leave what is buffered for writing alone
            let h = ((seed * 131 + k) as u64).wrapping_mul(0x9E3779B97F4A7C15) >> 40;
            for _ in 0..(h % 3) {
                let _ = Pin::new(&mut framed).poll_next(&mut cx);
            }
        }
        let r: Poll<Result<(), <C as Encoder<I>>::Error>> = match tok.as_bytes()[0] {
            b'x' => {
                // an explicit conversion (model: OConv): carries everything over, touches nothing
                framed = convert(framed, k);
                Poll::Ready(Ok(()))
            }
            b'y' => {
                // rebuild from FRESH parts (FramedParts::new / with_read_buf) that carry both buffers over through the public
                // fields — the documented way to move a connection to another codec; for the write half nothing may change
                // (model: OConv).  (The read flags start empty in fresh parts: that is why this is not one of the `+x` conversions.)
                let old = framed.into_parts();
                let mut parts = if k % 2 == 0 {
                    actix_codec::FramedParts::with_read_buf(old.io, old.codec, old.read_buf)
                } else {
                    let mut p = actix_codec::FramedParts::new(old.io, old.codec);
                    p.read_buf = old.read_buf;
                    p
                };
                parts.write_buf = old.write_buf;
                framed = Framed::from_parts(parts);
                Poll::Ready(Ok(()))
            }
            b'r' => Sink::<I>::poll_ready(Pin::new(&mut framed), &mut cx),
            b'f' => Sink::<I>::poll_flush(Pin::new(&mut framed), &mut cx),
            b'c' => Sink::<I>::poll_close(Pin::new(&mut framed), &mut cx),
            b's' => {
                let (l, sd) = tok[1..].split_once('x').expect("s<len>x<seed>");
                let item = make(payload(l.parse().unwrap(), sd.parse().unwrap()));
                Poll::Ready(Sink::<I>::start_send(Pin::new(&mut framed), item))
            }
            _ => panic!("bad op {tok}"),
        };
        let res = match &r {
            Poll::Pending => "pend",
            Poll::Ready(Ok(())) => "ok",
            Poll::Ready(Err(e)) => classify(e),
        };
        let evs = std::mem::take(&mut framed.io_mut().events);
        // after every call: is_write_buf_empty / is_write_buf_full / is_write_ready
        out.push(format!(
            "{}[{}]={}/{}{}{}",
            tok,
            evs.join(","),
            res,
            if framed.is_write_buf_empty() { "E" } else { "-" },
            if framed.is_write_buf_full() { "F" } else { "-" },
            if framed.is_write_ready() { "R" } else { "-" }
        ));
    }
    let parts = framed.into_parts();
    format!("{}|B{}", out.join(";"), blob(&parts.write_buf[..]))
}

fn classify_io(e: &io::Error) -> &'static str {
    if e.kind() == io::ErrorKind::WriteZero {
        "wz"
    } else if e.kind() == MOCK_ERR {
        "io"
    } else {
        "other"
    }
}

fn c14(line: &str) -> String {
    let f: Vec<&str> = line.split(';').collect();
    assert_eq!(f.len(), 5, "c14: expected 5 fields");
    let (codec, conv) = match f[0].strip_suffix("+x") {
        Some(c) => (c, true),
        None => (f[0], false),
    };
    let (codec, duplex) = match codec.split_once("+r") {
        Some((c, sd)) => (c, Some(sd.parse::<usize>().expect("+r<seed>"))),
        None => (codec, None),
    };
    match codec {
        "lines" => run_c14::<LinesCodec, String>(
            LinesCodec::default(),
            conv,
            duplex,
            &f[1..],
            |p| String::from_utf8(p).unwrap(),
            classify_io,
        ),
        "bytes" => run_c14::<BytesCodec, Bytes>(BytesCodec, conv, duplex, &f[1..], Bytes::from, classify_io),
        "lp" => run_c14::<LpCodec, Vec<u8>>(LpCodec { default_eof: false, trailer: false }, conv, duplex, &f[1..], |p| p, |e| match e {
            LpError::Io(e) => classify_io(e),
            LpError::TooLong => "enc",
            _ => "other",
        }),
        c => panic!("unknown codec {c}"),
    }
}

fn main() {
    let mode = std::env::args().nth(1).expect("mode");
    let f: fn(&str) -> String = match mode.as_str() {
        "c15" => c15,
        "c15enc" => c15enc,
        "c15eof" => c15eof,
        "c13" => c13,
        "c14" => c14,
        m => panic!("unknown mode {m}"),
    };
    let stdin = io::stdin();
    let stdout = io::stdout();
    let mut out = io::BufWriter::new(stdout.lock());
    for line in stdin.lock().lines() {
        let line = line.unwrap();
        let r = std::panic::catch_unwind(|| f(&line)).unwrap_or_else(|_| "PANIC".to_string());
        writeln!(out, "{}", r).unwrap();
    }
}
