(* Model/Svc.v — executable model of the actix-service combinators (C11, C12).
   No proofs here (Proofs/SvcFacts.v).

   A deep embedding: service expressions [sexpr] (a value of this type is a service object
   *including its mutable state*, i.e. the unread part of every leaf's readiness script),
   response-future states [sfut] mirroring the pin_project enums of the crate, and the three
   trait methods as functions:

     poll_ready : sexpr -> waker -> sexpr * rans * list event      (Service::poll_ready)
     call_fut / call_evs : sexpr -> Z -> sfut / list event           (Service::call)
     poll       : sfut  -> waker -> sfut * pres * list event        (Future::poll)

   Requests, responses, errors, configs and init errors are all Z.  Wakers are numbers; the
   driver hands out a fresh one for every top-level poll.  Every poll of a leaf is an event that
   records the waker it was polled with.

   Modelling decisions (see notes/service.md):
   * Leaves are scripted.  Readiness: a list of answers consumed one per poll_ready, Ready(Ok)
     once the list is exhausted.  Calls: an arbitrary function of the request giving the number
     of Pending polls and the final result; it does not depend on the readiness state, so a
     future may hold a copy of the service it will call later (AndThen's Rc<(A, B)>).
   * [FAndA fut kb kev] is `State::A { fut, b: Some(rc) }`; the continuation [kb]/[kev] is
     `|res| rc.1.call(res)` (future / events of that call).  [FAndATaken] is `b: None`.
     This makes [poll] structurally recursive.
   * `Box::pin`, `Box<dyn Service>`, `Rc`, `&`, `&mut`, `RefCell` add no behaviour in the code
     (each impl forwards both methods); [Wrap k] keeps the kind only so that the harness knows
     which real wrapper to build. *)
From Coq Require Export ZArith List Bool Lia.
Export ListNotations.
Open Scope Z_scope.

(* ---- reified closures ---- *)
Inductive mapper := MAdd (k : Z) | MMul (k : Z) | MConst (k : Z) | MTag (k : Z).

Definition app_m (m : mapper) (x : Z) : Z :=
  match m with
  | MAdd k => x + k
  | MMul k => x * k
  | MConst k => k
  | MTag k => 10 * x + k
  end.

Inductive res := Ok (v : Z) | Err (e : Z).
Inductive rans := RPending | ROk | RErr (e : Z).          (* Poll<Result<(), E>> *)
Inductive pres := PPending | PReady (r : res) | PPanic.   (* Poll<Result<R, E>> or a panic *)

(* which closure of which combinator ran *)
Inductive mkind := KOk | KErr | KPre | KPost | KCfg | KInit | KTInit.

Inductive event :=
| EvReady (id : nat) (w : nat) (a : rans)      (* leaf poll_ready with waker w answered a *)
| EvCall (id : nat) (req : Z)                  (* leaf call *)
| EvPoll (id : nat) (w : nat) (a : pres)       (* leaf response future polled with waker w *)
| EvPollDone (id : nat) (w : nat)              (* ... polled AFTER it had returned Ready *)
| EvMap (k : mkind) (m : mapper) (x : Z)       (* closure m applied to x *)
(* factory level *)
| EvNew (id : nat) (cfg : option Z)            (* leaf factory new_service(cfg); None = () *)
| EvInit (id : nat) (w : nat) (pending : bool) (* leaf factory future polled *)
| EvInitDone (id : nat) (w : nat)              (* ... polled AFTER it had returned Ready *)
| EvNewT (id : nat)                            (* Transform::new_transform *)
| EvCfgFn (id : nat) (cfg : option Z).         (* apply_cfg closure invoked *)

Inductive wrapk := WBoxed | WRcDyn | WRc | WBox | WRef | WMutRef | WRefCell.
Inductive wrapfn := WPrePost (pre post : mapper) | WSkip (r : res).

Inductive sexpr :=
| Leaf (id : nat) (rs : list rans) (beh : Z -> nat * res)
| FnSvc (id : nat) (beh : Z -> nat * res)        (* fn_service: always ready *)
| AndThen (a b : sexpr)
| Map (m : mapper) (a : sexpr)
| MapErr (m : mapper) (a : sexpr)
| ApplyFn (wf : wrapfn) (a : sexpr)
| Wrap (k : wrapk) (a : sexpr).

(* ---- Service::poll_ready ---- *)
Definition map_rerr (m : mapper) (r : rans) : rans * list event :=
  match r with
  | RErr e => (RErr (app_m m e), [EvMap KErr m e])
  | _ => (r, [])
  end.

Fixpoint poll_ready (e : sexpr) (w : nat) : sexpr * rans * list event :=
  match e with
  | Leaf id rs beh =>
      match rs with
      | [] => (e, ROk, [EvReady id w ROk])
      | a :: rs' => (Leaf id rs' beh, a, [EvReady id w a])
      end
  | FnSvc _ _ => (e, ROk, [])                                  (* always_ready! *)
  | AndThen a b =>
      (* let not_ready = !a.poll_ready(cx)?.is_ready();
         if !b.poll_ready(cx)?.is_ready() || not_ready { Pending } else { Ready(Ok(())) } *)
      let '(a', ra, la) := poll_ready a w in
      match ra with
      | RErr x => (AndThen a' b, RErr x, la)
      | _ =>
          let '(b', rb, lb) := poll_ready b w in
          match rb with
          | RErr x => (AndThen a' b', RErr x, la ++ lb)
          | RPending => (AndThen a' b', RPending, la ++ lb)
          | ROk => (AndThen a' b', ra, la ++ lb)
          end
      end
  | Map m a => let '(a', r, l) := poll_ready a w in (Map m a', r, l)          (* forward_ready! *)
  | MapErr m a =>
      let '(a', r, l) := poll_ready a w in
      let '(r', lm) := map_rerr m r in (MapErr m a', r', l ++ lm)
  | ApplyFn wf a => let '(a', r, l) := poll_ready a w in (ApplyFn wf a', r, l) (* forward_ready! *)
  | Wrap k a => let '(a', r, l) := poll_ready a w in (Wrap k a', r, l)
  end.

(* ---- response futures ---- *)
Inductive sfut :=
| FLeaf (id : nat) (k : nat) (out : res) (done : bool)   (* scripted: Pending^k then Ready(out) *)
| FReady (v : option res)                                (* core::future::Ready *)
| FAndA (fut : sfut) (kb : Z -> sfut) (kev : Z -> list event)
| FAndATaken (fut : sfut)
| FAndB (fut : sfut)
| FMapOk (k : mkind) (m : mapper) (fut : sfut)           (* MapFuture; the apply_fn harness closure's future *)
| FMapEr (k : mkind) (m : mapper) (fut : sfut).          (* MapErrFuture *)

Fixpoint poll (f : sfut) (w : nat) : sfut * pres * list event :=
  match f with
  | FLeaf id k out done =>
      if done then (f, PReady out, [EvPollDone id w])
      else match k with
           | O => (FLeaf id O out true, PReady out, [EvPoll id w (PReady out)])
           | S k' => (FLeaf id k' out false, PPending, [EvPoll id w PPending])
           end
  | FReady None => (f, PPanic, [])
  | FReady (Some r) => (FReady None, PReady r, [])
  | FAndA fut kb kev =>
      (* let res = ready!(fut.poll(cx))?; let b = b.take().unwrap(); let fut = b.1.call(res);
         this.state.set(State::B { fut }); self.poll(cx) *)
      let '(fut', r, l) := poll fut w in
      match r with
      | PReady (Ok v) =>
          let '(fb', r2, l2) := poll (kb v) w in
          (FAndB fb', r2, l ++ kev v ++ l2)
      | _ => (FAndA fut' kb kev, r, l)
      end
  | FAndATaken fut =>
      let '(fut', r, l) := poll fut w in
      match r with
      | PReady (Ok v) => (FAndATaken fut', PPanic, l)          (* None.unwrap() *)
      | _ => (FAndATaken fut', r, l)
      end
  | FAndB fut => let '(fut', r, l) := poll fut w in (FAndB fut', r, l)
  | FMapOk k m fut =>
      let '(fut', r, l) := poll fut w in
      match r with
      | PReady (Ok v) => (FMapOk k m fut', PReady (Ok (app_m m v)), l ++ [EvMap k m v])
      | _ => (FMapOk k m fut', r, l)
      end
  | FMapEr k m fut =>
      let '(fut', r, l) := poll fut w in
      match r with
      | PReady (Err x) => (FMapEr k m fut', PReady (Err (app_m m x)), l ++ [EvMap k m x])
      | _ => (FMapEr k m fut', r, l)
      end
  end.

(* ---- Service::call : the future and the events of the call itself ---- *)
Fixpoint call_evs (e : sexpr) (req : Z) : list event :=
  match e with
  | Leaf id _ _ => [EvCall id req]
  | FnSvc id _ => [EvCall id req]
  | AndThen a _ => call_evs a req
  | Map _ a => call_evs a req
  | MapErr _ a => call_evs a req
  | ApplyFn (WPrePost pre _) a => EvMap KPre pre req :: call_evs a (app_m pre req)
  | ApplyFn (WSkip _) _ => []
  | Wrap _ a => call_evs a req
  end.

Fixpoint call_fut (e : sexpr) (req : Z) : sfut :=
  match e with
  | Leaf id _ beh => FLeaf id (fst (beh req)) (snd (beh req)) false
  | FnSvc id beh => FLeaf id (fst (beh req)) (snd (beh req)) false
  | AndThen a b => FAndA (call_fut a req) (call_fut b) (call_evs b)
  | Map m a => FMapOk KOk m (call_fut a req)
  | MapErr m a => FMapEr KErr m (call_fut a req)
  | ApplyFn (WPrePost pre post) a => FMapOk KPost post (call_fut a (app_m pre req))
  | ApplyFn (WSkip r) _ => FReady (Some r)
  | Wrap _ a => call_fut a req
  end.

(* ---- the manual executor: poll with fresh wakers w, w+1, ... until Ready (or fuel runs out) ---- *)
Fixpoint drive (n : nat) (w : nat) (f : sfut) : pres * nat * list event :=
  match n with
  | O => (PPending, O, [])                       (* out of fuel: reported as Pending *)
  | S n' =>
      let '(f', r, l) := poll f w in
      match r with
      | PPending => let '(r2, c, l2) := drive n' (S w) f' in (r2, S c, l ++ l2)
      | _ => (r, 1%nat, l)
      end
  end.

(* call + drive: result, number of polls used, complete log *)
Definition run_call (n : nat) (w : nat) (e : sexpr) (req : Z) : pres * nat * list event :=
  let '(r, c, l) := drive n w (call_fut e req) in (r, c, call_evs e req ++ l).

(* top-level client script *)
Inductive op := OReady | OCall (req : Z).
Inductive obs := ObsReady (r : rans) (l : list event) | ObsCall (r : pres) (polls : nat) (l : list event).

Fixpoint run_ops (n : nat) (e : sexpr) (w : nat) (ops : list op) : list obs :=
  match ops with
  | [] => []
  | OReady :: t => let '(e', r, l) := poll_ready e w in ObsReady r l :: run_ops n e' (S w) t
  | OCall req :: t =>
      let '(r, c, l) := run_call n w e req in ObsCall r c l :: run_ops n e (w + c) t
  end.

(* ---- the reference composition (C11) ---- *)
Fixpoint denote (e : sexpr) (req : Z) : res :=
  match e with
  | Leaf _ _ beh => snd (beh req)
  | FnSvc _ beh => snd (beh req)
  | AndThen a b => match denote a req with Ok v => denote b v | Err x => Err x end
  | Map m a => match denote a req with Ok v => Ok (app_m m v) | Err x => Err x end
  | MapErr m a => match denote a req with Ok v => Ok v | Err x => Err (app_m m x) end
  | ApplyFn (WPrePost pre post) a =>
      match denote a (app_m pre req) with Ok v => Ok (app_m post v) | Err x => Err x end
  | ApplyFn (WSkip r) _ => r
  | Wrap _ a => denote a req
  end.

(* number of Pending polls before the composed future resolves *)
Fixpoint delay (e : sexpr) (req : Z) : nat :=
  match e with
  | Leaf _ _ beh => fst (beh req)
  | FnSvc _ beh => fst (beh req)
  | AndThen a b => (delay a req + match denote a req with Ok v => delay b v | Err _ => O end)%nat
  | Map _ a => delay a req
  | MapErr _ a => delay a req
  | ApplyFn (WPrePost pre _) a => delay a (app_m pre req)
  | ApplyFn (WSkip _) _ => O
  | Wrap _ a => delay a req
  end.

(* sequential reference log: leaf calls, leaf completions and closure applications, in the order
   the reference composition performs them (no Pending polls, no wakers) *)
Inductive sev := SCall (id : nat) (req : Z) | SDone (id : nat) (r : res) | SMap (k : mkind) (m : mapper) (x : Z).

Fixpoint sem (e : sexpr) (req : Z) : list sev :=
  match e with
  | Leaf id _ beh => [SCall id req; SDone id (snd (beh req))]
  | FnSvc id beh => [SCall id req; SDone id (snd (beh req))]
  | AndThen a b => sem a req ++ match denote a req with Ok v => sem b v | Err _ => [] end
  | Map m a => sem a req ++ match denote a req with Ok v => [SMap KOk m v] | Err _ => [] end
  | MapErr m a => sem a req ++ match denote a req with Ok _ => [] | Err x => [SMap KErr m x] end
  | ApplyFn (WPrePost pre post) a =>
      SMap KPre pre req :: sem a (app_m pre req)
      ++ match denote a (app_m pre req) with Ok v => [SMap KPost post v] | Err _ => [] end
  | ApplyFn (WSkip _) _ => []
  | Wrap _ a => sem a req
  end.

(* projection of a log onto those events *)
Definition proj1 (ev : event) : list sev :=
  match ev with
  | EvCall id r => [SCall id r]
  | EvPoll id _ (PReady r) => [SDone id r]
  | EvMap k m x => [SMap k m x]
  | _ => []
  end.
Definition proj (l : list event) : list sev := flat_map proj1 l.

(* ---- readiness reference (C12) ---- *)
(* the leaves of a service in evaluation order with the answer each will give to its next poll
   and the map_err closures between it and the root (innermost first) *)
Definition next_ans (rs : list rans) : rans := match rs with [] => ROk | a :: _ => a end.

Definition leaf_t := (nat * rans * list mapper)%type.

Fixpoint leaves (e : sexpr) : list leaf_t :=
  match e with
  | Leaf id rs _ => [(id, next_ans rs, [])]
  | FnSvc _ _ => []
  | AndThen a b => leaves a ++ leaves b
  | Map _ a => leaves a
  | MapErr m a => map (fun '(id, r, ms) => (id, r, ms ++ [m])) (leaves a)
  | ApplyFn _ a => leaves a
  | Wrap _ a => leaves a
  end.

Definition is_rerr (r : rans) : bool := match r with RErr _ => true | _ => false end.
Definition is_rpending (r : rans) : bool := match r with RPending => true | _ => false end.

(* the leaves polled by one poll_ready: all of them, or up to and including the first that errs *)
Fixpoint polled (ls : list leaf_t) : list leaf_t :=
  match ls with
  | [] => []
  | (id, r, ms) :: t => (id, r, ms) :: if is_rerr r then [] else polled t
  end.

Definition ready_evs (l : list event) : list event :=
  filter (fun ev => match ev with EvReady _ _ _ => true | _ => false end) l.

(* expected answer of poll_ready from the leaves' next answers *)
Fixpoint conj_ready (ls : list leaf_t) : rans :=
  match ls with
  | [] => ROk
  | (_, RErr x, ms) :: _ => RErr (fold_left (fun v m => app_m m v) ms x)
  | (_, RPending, _) :: t => match conj_ready t with RErr x => RErr x | _ => RPending end
  | (_, ROk, _) :: t => conj_ready t
  end.

(* the service after a poll_ready that did not hit an error: every leaf has consumed exactly one answer *)
Fixpoint advance (e : sexpr) : sexpr :=
  match e with
  | Leaf id rs beh => Leaf id (tl rs) beh
  | FnSvc _ _ => e
  | AndThen a b => AndThen (advance a) (advance b)
  | Map m a => Map m (advance a)
  | MapErr m a => MapErr m (advance a)
  | ApplyFn wf a => ApplyFn wf (advance a)
  | Wrap k a => Wrap k (advance a)
  end.

(* the readiness event a leaf emits when polled with waker w *)
Definition ev_of (w : nat) (x : leaf_t) : event := let '(id, a, _) := x in EvReady id w a.

(* ---- per-poll view of driving a future (C12) ---- *)
(* the polls of the executor: (waker, result, events) of each poll up to the first non-Pending *)
Fixpoint polls (n w : nat) (f : sfut) : list (nat * pres * list event) :=
  match n with
  | O => []
  | S n' =>
      let '(f', r, l) := poll f w in
      (w, r, l) :: match r with PPending => polls n' (S w) f' | _ => [] end
  end.

(* events a poll with waker w may emit: leaf-future polls with THAT waker which are not polls
   after completion, calls of later stages, closure applications *)
Definition okev (w : nat) (ev : event) : Prop :=
  match ev with
  | EvPoll _ w' _ => w' = w
  | EvCall _ _ | EvMap _ _ _ => True
  | _ => False
  end.

(* the last thing that happened in the poll: a leaf future answered Pending to waker w *)
Definition ends_pending (w : nat) (l : list event) : Prop :=
  exists l0 id, l = l0 ++ [EvPoll id w PPending].

Definition good_poll (x : nat * pres * list event) : Prop :=
  let '(w, r, l) := x in
  r <> PPanic /\ Forall (okev w) l /\ (r = PPending -> ends_pending w l).

(* ---- the family of scripted leaf behaviours used by the correspondence run ----
   (theorems quantify over ALL functions Z -> nat * res; this family is what the case lines of
   the driver and of the harness can express) *)
Record behspec := { b_d : Z; b_dm : Z; b_ec : Z; b_m : mapper }.
Definition beh_of (b : behspec) (req : Z) : nat * res :=
  (Z.to_nat ((b_d b + b_dm b * req) mod 3),
   if (0 <=? b_ec b) && (req mod 3 =? b_ec b) then Err (100 + req) else Ok (app_m (b_m b) req)).

(* ============================================================================================ *)
(* Factory level                                                                                *)
(* ============================================================================================ *)
(* Config values: None is the unit config `()`. *)
Definition cfgv := option Z.
Definition cfg_z (c : cfgv) : Z := match c with Some z => z | None => 0 end.

Inductive ires := IOk (s : sexpr) | IErr (e : Z).          (* Result<Service, InitError> *)
Inductive ipres := IPending | IReady (r : ires) | IPanic.

(* a Transform of the harness: new_transform(svc) logs EvNewT, its future answers Pending t_k
   times and then fails with t_fail or yields  Box<dyn>(apply_fn(svc, t_wf));  t_rc: applied
   through the `Rc<T>` impl;  t_mie: through TransformExt::map_init_err *)
Record tspec := { t_id : nat; t_k : nat; t_fail : option Z; t_wf : wrapfn; t_rc : bool; t_mie : option mapper }.

(* the closure given to apply_cfg / apply_cfg_factory: logs EvCfgFn, its future answers Pending
   c_k times, then fails with c_fail or yields  map(+cfg)(Rc clone of the service) *)
Record cspec := { c_id : nat; c_k : nat; c_fail : option Z }.
Definition cfg_build (c : cfgv) (s : sexpr) : sexpr := Map (MAdd (cfg_z c)) (Wrap WRc s).
Definition cfg_out (cs : cspec) (c : cfgv) (s : sexpr) : ires :=
  match c_fail cs with Some e => IErr e | None => IOk (cfg_build c s) end.

Inductive lkind := LDirect | LFnFactory | LFnFactoryCfg.   (* hand-written factory / fn_factory / fn_factory_with_config *)
Inductive fwrapk := FWBoxed | FWRc | FWArc.
Inductive svcwrap := SWMap (m : mapper) | SWMapErr (m : mapper) | SWApplyFn (wf : wrapfn).
Definition sw_app (sw : svcwrap) (s : sexpr) : sexpr :=
  match sw with SWMap m => Map m s | SWMapErr m => MapErr m s | SWApplyFn wf => ApplyFn wf s end.

Inductive fexpr :=
| FLeafF (id : nat) (k : lkind) (beh : cfgv -> nat * ires)
| FFnService (id : nat) (beh : Z -> nat * res)                 (* fn_service(f) as a factory *)
| FAndThen (a b : fexpr)
| FMapSvc (sw : svcwrap) (a : fexpr)                           (* .map / .map_err / apply_fn_factory *)
| FMapInitErr (m : mapper) (a : fexpr)
| FMapConfig (m : mapper) (a : fexpr)
| FUnitConfig (a : fexpr)
| FApplyCfg (s : sexpr) (cs : cspec)
| FApplyCfgFactory (a : fexpr) (cs : cspec)
| FApplyTransform (t : tspec) (a : fexpr)
| FWrap (k : fwrapk) (a : fexpr).

(* Option<F> inside a future: still there / taken / the future clones instead *)
Inductive optst := OptSome | OptNone | NoOpt.

Inductive ffut :=
| FFLeaf (id : nat) (k : nat) (out : ires) (done : bool)       (* scripted: Pending^k then Ready(out) *)
| FFReady (v : option ires)                                    (* crate::Ready *)
| FFAnd (fa fb : ffut) (a b : option sexpr)                    (* AndThenServiceFactoryResponse *)
| FFMapSvc (sw : svcwrap) (st : optst) (fut : ffut)            (* MapServiceFuture, MapErrServiceFuture, ApplyServiceFactoryResponse *)
| FFMapInitErr (k : mkind) (m : mapper) (fut : ffut)           (* MapInitErrFuture, TransformMapInitErrFuture *)
| FFBox (fut : ffut) (done : bool)                             (* the async block of boxed::FactoryWrapper *)
| FFTrA (fut : ffut) (kt : sexpr -> ffut) (kev : sexpr -> list event)   (* ApplyTransformFuture::A + store.0.new_transform *)
| FFTrB (fut : ffut)
| FFCfgA (fut : ffut) (cfg : option cfgv) (kc : cfgv -> sexpr -> ffut) (kev : cfgv -> sexpr -> list event)
| FFCfgB (svc : sexpr) (cfg : option cfgv) (kc : cfgv -> sexpr -> ffut) (kev : cfgv -> sexpr -> list event)
| FFCfgC (fut : ffut).

Definition map_ierr (k : mkind) (m : mapper) (r : ires) : ires * list event :=
  match r with IErr e => (IErr (app_m m e), [EvMap k m e]) | _ => (r, []) end.

Fixpoint fpoll (f : ffut) (w : nat) : ffut * ipres * list event :=
  match f with
  | FFLeaf id k out done =>
      if done then (f, IReady out, [EvInitDone id w])
      else match k with
           | O => (FFLeaf id O out true, IReady out, [EvInit id w false])
           | S k' => (FFLeaf id k' out false, IPending, [EvInit id w true])
           end
  | FFReady None => (f, IPanic, [])                              (* "Ready can not be polled twice." *)
  | FFReady (Some r) => (FFReady None, IReady r, [])
  | FFAnd fa fb a b =>
      (* if this.a.is_none() { if let Poll::Ready(service) = this.fut_a.poll(cx)? { *this.a = Some(service); } }
         if this.b.is_none() { ... fut_b ... }
         if this.a.is_some() && this.b.is_some() { Ready(Ok(AndThenService::new(a.take().unwrap(), b.take().unwrap()))) }
         else { Pending } *)
      let '(fa', a', ra, la) :=
        match a with
        | Some _ => (fa, a, None, [])
        | None => let '(fa', r, l) := fpoll fa w in
                  match r with
                  | IReady (IOk s) => (fa', Some s, None, l)
                  | IReady (IErr e) => (fa', None, Some (IReady (IErr e)), l)
                  | IPanic => (fa', None, Some IPanic, l)
                  | IPending => (fa', None, None, l)
                  end
        end in
      match ra with
      | Some r => (FFAnd fa' fb a' b, r, la)
      | None =>
          let '(fb', b', rb, lb) :=
            match b with
            | Some _ => (fb, b, None, [])
            | None => let '(fb', r, l) := fpoll fb w in
                      match r with
                      | IReady (IOk s) => (fb', Some s, None, l)
                      | IReady (IErr e) => (fb', None, Some (IReady (IErr e)), l)
                      | IPanic => (fb', None, Some IPanic, l)
                      | IPending => (fb', None, None, l)
                      end
            end in
          match rb with
          | Some r => (FFAnd fa' fb' a' b', r, la ++ lb)
          | None =>
              match a', b' with
              | Some sa, Some sb => (FFAnd fa' fb' None None, IReady (IOk (AndThen sa sb)), la ++ lb)
              | _, _ => (FFAnd fa' fb' a' b', IPending, la ++ lb)
              end
          end
      end
  | FFMapSvc sw st fut =>
      let '(fut', r, l) := fpoll fut w in
      match r with
      | IReady (IOk s) =>
          match st with
          | OptNone => (FFMapSvc sw st fut', IPanic, l)           (* None.unwrap() *)
          | OptSome => (FFMapSvc sw OptNone fut', IReady (IOk (sw_app sw s)), l)
          | NoOpt => (FFMapSvc sw NoOpt fut', IReady (IOk (sw_app sw s)), l)
          end
      | _ => (FFMapSvc sw st fut', r, l)
      end
  | FFMapInitErr k m fut =>
      let '(fut', r, l) := fpoll fut w in
      match r with
      | IReady ir => let '(ir', lm) := map_ierr k m ir in (FFMapInitErr k m fut', IReady ir', l ++ lm)
      | _ => (FFMapInitErr k m fut', r, l)
      end
  | FFBox fut done =>
      if done then (f, IPanic, [])                               (* `async fn` resumed after completion *)
      else
        let '(fut', r, l) := fpoll fut w in
        match r with
        | IReady (IOk s) => (FFBox fut' true, IReady (IOk (Wrap WBoxed s)), l)
        | IReady (IErr e) => (FFBox fut' true, r, l)
        | _ => (FFBox fut' false, r, l)
        end
  | FFTrA fut kt kev =>
      (* let srv = ready!(fut.poll(cx))?; let fut = this.store.0.new_transform(srv);
         this.state.set(B { fut }); self.poll(cx) *)
      let '(fut', r, l) := fpoll fut w in
      match r with
      | IReady (IOk s) =>
          let '(ft', r2, l2) := fpoll (kt s) w in
          (FFTrB ft', r2, l ++ kev s ++ l2)
      | _ => (FFTrA fut' kt kev, r, l)
      end
  | FFTrB fut => let '(fut', r, l) := fpoll fut w in (FFTrB fut', r, l)
  | FFCfgA fut cfg kc kev =>
      (* A: let svc = ready!(fut.poll(cx))?; state = B { svc }; self.poll(cx)
         B: ready!(svc.poll_ready(cx))?; let fut = f(this.cfg.take().unwrap(), svc); state = C { fut }; self.poll(cx)
         C: fut.poll(cx) *)
      let '(fut', r, l) := fpoll fut w in
      match r with
      | IReady (IOk s) =>
          let '(s', rr, lr) := poll_ready s w in
          match rr with
          | RPending => (FFCfgB s' cfg kc kev, IPending, l ++ lr)
          | RErr e => (FFCfgB s' cfg kc kev, IReady (IErr e), l ++ lr)       (* From<Error> for InitError *)
          | ROk =>
              match cfg with
              | None => (FFCfgB s' cfg kc kev, IPanic, l ++ lr)
              | Some c =>
                  let '(fc', r3, l3) := fpoll (kc c s') w in
                  (FFCfgC fc', r3, l ++ lr ++ kev c s' ++ l3)
              end
          end
      | _ => (FFCfgA fut' cfg kc kev, r, l)
      end
  | FFCfgB s cfg kc kev =>
      let '(s', rr, lr) := poll_ready s w in
      match rr with
      | RPending => (FFCfgB s' cfg kc kev, IPending, lr)
      | RErr e => (FFCfgB s' cfg kc kev, IReady (IErr e), lr)
      | ROk =>
          match cfg with
          | None => (FFCfgB s' cfg kc kev, IPanic, lr)
          | Some c =>
              let '(fc', r3, l3) := fpoll (kc c s') w in
              (FFCfgC fc', r3, lr ++ kev c s' ++ l3)
          end
      end
  | FFCfgC fut => let '(fut', r, l) := fpoll fut w in (FFCfgC fut', r, l)
  end.

(* ---- ServiceFactory::new_service : events of the call itself, and the future ---- *)
Definition eff_cfg (k : lkind) (c : cfgv) : cfgv := match k with LFnFactory => None | _ => c end.
Definition map_cfg (m : mapper) (c : cfgv) : cfgv := match c with Some z => Some (app_m m z) | None => None end.

Definition tr_out (t : tspec) (s : sexpr) : ires :=
  match t_fail t with Some e => IErr e | None => IOk (Wrap WBoxed (ApplyFn (t_wf t) s)) end.
(* Transform::new_transform of the harness transform (through Rc and/or map_init_err if asked) *)
Definition tr_fut (t : tspec) (s : sexpr) : ffut :=
  let base := FFLeaf (t_id t) (t_k t) (tr_out t s) false in
  match t_mie t with Some m => FFMapInitErr KTInit m base | None => base end.

Fixpoint new_evs (f : fexpr) (c : cfgv) : list event :=
  match f with
  | FLeafF id k _ => [EvNew id (eff_cfg k c)]
  | FFnService _ _ => []
  | FAndThen a b => new_evs a c ++ new_evs b c
  | FMapSvc _ a => new_evs a c
  | FMapInitErr _ a => new_evs a c
  | FMapConfig m a => match c with Some z => [EvMap KCfg m z] | None => [] end ++ new_evs a (map_cfg m c)
  | FUnitConfig a => new_evs a None
  | FApplyCfg _ cs => [EvCfgFn (c_id cs) c]
  | FApplyCfgFactory a _ => new_evs a None
  | FApplyTransform _ a => new_evs a c
  | FWrap _ a => new_evs a c
  end.

Definition sw_optst (sw : svcwrap) : optst := match sw with SWMapErr _ => NoOpt | _ => OptSome end.

Fixpoint new_fut (f : fexpr) (c : cfgv) : ffut :=
  match f with
  | FLeafF id k beh => FFLeaf id (fst (beh (eff_cfg k c))) (snd (beh (eff_cfg k c))) false
  | FFnService id beh => FFReady (Some (IOk (FnSvc id beh)))
  | FAndThen a b => FFAnd (new_fut a c) (new_fut b c) None None
  | FMapSvc sw a => FFMapSvc sw (sw_optst sw) (new_fut a c)
  | FMapInitErr m a => FFMapInitErr KInit m (new_fut a c)
  | FMapConfig m a => new_fut a (map_cfg m c)
  | FUnitConfig a => new_fut a None
  | FApplyCfg s cs => FFLeaf (c_id cs) (c_k cs) (cfg_out cs c s) false
  | FApplyCfgFactory a cs =>
      FFCfgA (new_fut a None) (Some c)
             (fun c' s => FFLeaf (c_id cs) (c_k cs) (cfg_out cs c' s) false)
             (fun c' _ => [EvCfgFn (c_id cs) c'])
  | FApplyTransform t a => FFTrA (new_fut a c) (tr_fut t) (fun _ => [EvNewT (t_id t)])
  | FWrap FWBoxed a => FFBox (new_fut a c) false
  | FWrap _ a => new_fut a c
  end.

(* ---- executor ---- *)
Fixpoint fdrive (n : nat) (w : nat) (f : ffut) : ipres * nat * list event :=
  match n with
  | O => (IPending, O, [])
  | S n' =>
      let '(f', r, l) := fpoll f w in
      match r with
      | IPending => let '(r2, c, l2) := fdrive n' (S w) f' in (r2, S c, l ++ l2)
      | _ => (r, 1%nat, l)
      end
  end.

Definition run_new (n : nat) (w : nat) (f : fexpr) (c : cfgv) : ipres * nat * list event :=
  let '(r, k, l) := fdrive n w (new_fut f c) in (r, k, new_evs f c ++ l).

Fixpoint fpolls (n w : nat) (f : ffut) : list (nat * ipres * list event) :=
  match n with
  | O => []
  | S n' =>
      let '(f', r, l) := fpoll f w in
      (w, r, l) :: match r with IPending => fpolls n' (S w) f' | _ => [] end
  end.

(* a factory case: new_service(cfg), drive, then the client ops on the service that was built *)
Inductive fobs := FObs (r : ipres) (polls : nat) (l : list event) (rest : list obs).
Definition run_fac (n : nat) (f : fexpr) (c : cfgv) (ops : list op) : fobs :=
  let '(r, k, l) := run_new n O f c in
  FObs r k l match r with IReady (IOk s) => run_ops n s k ops | _ => [] end.

(* ---- reference (C11): how many Pending rounds, and what comes out ---- *)
(* sum of the lengths of the unread readiness scripts: bounds the rounds of the readiness wait *)
Fixpoint script_len (e : sexpr) : nat :=
  match e with
  | Leaf _ rs _ => length rs
  | FnSvc _ _ => O
  | AndThen a b => (script_len a + script_len b)%nat
  | Map _ a | MapErr _ a | ApplyFn _ a | Wrap _ a => script_len a
  end.

(* poll_ready until it is not Pending: rounds of Pending, final answer, final service state *)
Fixpoint wait_ready (n : nat) (e : sexpr) : nat * rans * sexpr :=
  match n with
  | O => (O, RPending, e)
  | S n' =>
      let '(e', r, _) := poll_ready e O in
      match r with
      | RPending => let '(k, r2, e2) := wait_ready n' e' in (S k, r2, e2)
      | _ => (O, r, e')
      end
  end.

Definition fjoin (x y : nat * ires) : nat * ires :=
  let '(ka, ra) := x in
  let '(kb, rb) := y in
  match ra, rb with
  | IOk sa, IOk sb => (Nat.max ka kb, IOk (AndThen sa sb))
  | IErr e, IOk _ => (ka, IErr e)
  | IOk _, IErr e => (kb, IErr e)
  | IErr ea, IErr eb => if (ka <=? kb)%nat then (ka, IErr ea) else (kb, IErr eb)   (* poll round, then position *)
  end.

Definition imap (g : sexpr -> sexpr) (r : ires) : ires := match r with IOk s => IOk (g s) | IErr e => IErr e end.
Definition imap_err (m : mapper) (r : ires) : ires := match r with IOk s => IOk s | IErr e => IErr (app_m m e) end.

Fixpoint fsem (f : fexpr) (c : cfgv) : nat * ires :=
  match f with
  | FLeafF _ k beh => beh (eff_cfg k c)
  | FFnService id beh => (O, IOk (FnSvc id beh))
  | FAndThen a b => fjoin (fsem a c) (fsem b c)
  | FMapSvc sw a => let '(k, r) := fsem a c in (k, imap (sw_app sw) r)
  | FMapInitErr m a => let '(k, r) := fsem a c in (k, imap_err m r)
  | FMapConfig m a => fsem a (map_cfg m c)
  | FUnitConfig a => fsem a None
  | FApplyCfg s cs => (c_k cs, cfg_out cs c s)
  | FApplyCfgFactory a cs =>
      (* create, wait ready, configure *)
      let '(ka, ra) := fsem a None in
      match ra with
      | IErr e => (ka, IErr e)
      | IOk s =>
          let '(kr, rr, s') := wait_ready (S (script_len s)) s in
          match rr with
          | RErr e => ((ka + kr)%nat, IErr e)
          | _ => ((ka + kr + c_k cs)%nat, cfg_out cs c s')
          end
      end
  | FApplyTransform t a =>
      let '(ka, ra) := fsem a c in
      match ra with
      | IErr e => (ka, IErr e)
      | IOk s => ((ka + t_k t)%nat,
                  match t_mie t with Some m => imap_err m (tr_out t s) | None => tr_out t s end)
      end
  | FWrap FWBoxed a => let '(k, r) := fsem a c in (k, imap (Wrap WBoxed) r)
  | FWrap _ a => fsem a c
  end.

(* the leaf factories of a factory tree with the config each is built with, in creation order *)
Fixpoint fleaves (f : fexpr) (c : cfgv) : list (nat * cfgv) :=
  match f with
  | FLeafF id k _ => [(id, eff_cfg k c)]
  | FFnService _ _ => []
  | FAndThen a b => fleaves a c ++ fleaves b c
  | FMapSvc _ a | FMapInitErr _ a | FApplyTransform _ a | FWrap _ a => fleaves a c
  | FMapConfig m a => fleaves a (map_cfg m c)
  | FUnitConfig a => fleaves a None
  | FApplyCfg _ _ => []
  | FApplyCfgFactory a _ => fleaves a None
  end.

Definition new_events (l : list event) : list (nat * cfgv) :=
  flat_map (fun ev => match ev with EvNew id c => [(id, c)] | _ => [] end) l.

(* C12 at factory level: what one poll (waker w) of a factory future may log, and why it may pend *)
Definition fokev (w : nat) (ev : event) : Prop :=
  match ev with
  | EvInit _ w' _ => w' = w
  | EvReady _ w' _ => w' = w
  | EvMap _ _ _ | EvNewT _ | EvCfgFn _ _ => True
  | _ => False
  end.
Definition has_pending (w : nat) (l : list event) : Prop :=
  exists id, In (EvInit id w true) l \/ In (EvReady id w RPending) l.
Definition fgood_poll (x : nat * ipres * list event) : Prop :=
  let '(w, r, l) := x in
  r <> IPanic /\ Forall (fokev w) l /\ (r = IPending -> has_pending w l).

(* ---- the family of scripted leaf-factory behaviours used by the correspondence run ---- *)
Record fbehspec := { f_d : Z; f_dm : Z; f_ec : Z; f_rs : list rans; f_b : behspec }.
Definition fbeh_of (id : nat) (fb : fbehspec) (c : cfgv) : nat * ires :=
  let z := cfg_z c in
  (Z.to_nat ((f_d fb + f_dm fb * z) mod 3),
   if (0 <=? f_ec fb) && (z mod 3 =? f_ec fb) then IErr (200 + z)
   else IOk (Leaf id (f_rs fb) (fun req => beh_of (f_b fb) (req + z)))).
