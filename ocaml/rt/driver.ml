(* Driver for the extracted actix-rt model (C09, C10).  One case per stdin line, one answer per stdout line.
   modes:
     accept   input "<case> # <log>"  -> "ok" | "bad:<n>"   (the extracted acceptance predicate Rt_accepts_why)
     run      input "<case>"          -> model log under a pseudo-random schedule derived from the case's seed,
                                         followed by " # ok|bad:<n>" (the predicate on the model's own log)
     explore  input "<case>"          -> "<states> <transitions> <rejected> <terminal> <capped 0/1>": all schedules (BFS)
     member   input "<case> # <log>"  -> "in|out:arbs|out:ret|cap <states> <transitions>": is the log one the model can produce?
     blockon  input "<pend> <value> <spawned>" -> "<value> <tasks run>"
   case/log syntax: see harness/h_rt/src/main.rs *)
open Gen

let rec nat_of_int n = if n <= 0 then O else S (nat_of_int (n - 1))
let rec int_of_nat = function O -> 0 | S n -> 1 + int_of_nat n
let rec pos_of_int n = if n = 1 then XH else if n land 1 = 1 then XI (pos_of_int (n lsr 1)) else XO (pos_of_int (n lsr 1))
let z_of_int n = if n = 0 then Z0 else if n > 0 then Zpos (pos_of_int n) else Zneg (pos_of_int (-n))
let rec int_of_pos = function XH -> 1 | XO p -> 2 * int_of_pos p | XI p -> 2 * int_of_pos p + 1
let int_of_z = function Z0 -> 0 | Zpos p -> int_of_pos p | Zneg p -> - (int_of_pos p)

let parse_kind s =
  match s.[0] with
  | 'c' | 'b' | 'g' -> KDone   (* g: the harness' gate task (blocks its thread until released, then completes) *)
  | 'p' | 'q' -> KPend
  | 'x' -> KPanic
  | 'e' -> KStopSys (z_of_int (int_of_string (String.sub s 1 (String.length s - 1))))
  | 's' -> KStopSelf
  | _ -> failwith ("kind " ^ s)

let parse_op t =
  match String.split_on_char ':' t with
  | "n" :: _ -> ONew
  | ("sp" | "sf") :: k :: kd :: _ -> OSpawn (nat_of_int (int_of_string k), parse_kind kd)
  | "st" :: k :: _ -> OStop (nat_of_int (int_of_string k))
  | "ss" :: c :: _ -> OSysStop (z_of_int (int_of_string c))
  | ["wr"] -> OWaitRun
  | ["j"; k] | ["jd"; k] -> OJoin (nat_of_int (int_of_string k))
  | ["d"; k] -> ODrop (nat_of_int (int_of_string k))
  | ["aw"; k; i] -> OAwait (nat_of_int (int_of_string k), nat_of_int (int_of_string i))
  | _ -> failwith ("op " ^ t)

let words s = List.filter (fun x -> x <> "") (String.split_on_char ' ' s)

(* case -> (userun, seed, ops) *)
let parse_case s =
  match words s with
  | rw :: seed :: ops -> (rw = "R", int_of_string seed, List.map parse_op ops)
  | _ -> failwith ("case " ^ s)

let res_of_char = function
  | 't' -> RTrue | 'f' -> RFalse | 'u' -> RUnit | 'j' -> RJoined | 'h' -> RHang | 'r' -> RRet | 's' -> RStarted
  | _ -> RUnit   (* any unexpected result letter (e.g. 'x': join returned Err) fails the monitor of the ops that have a result *)
let char_of_res = function
  | RTrue -> 't' | RFalse -> 'f' | RUnit -> 'u' | RJoined -> 'j' | RHang -> 'h' | RRet -> 'r' | RStarted -> 's'

let parse_ev s =
  match String.split_on_char ':' s with
  | [a; b; c] -> { e_tid = nat_of_int (int_of_string a); e_thr = nat_of_int (int_of_string b); e_sys = nat_of_int (int_of_string c) }
  | _ -> failwith ("ev " ^ s)

let parse_log s =
  let fields = String.split_on_char ';' (String.trim s) in
  let ret = ref None and ops = ref [] and arbs = ref [] in
  List.iter (fun f ->
    match String.index_opt f '=' with
    | None -> failwith ("field " ^ f)
    | Some i ->
      let k = String.sub f 0 i and v = String.sub f (i + 1) (String.length f - i - 1) in
      if k = "ret" then
        ret := (match v with "none" -> None | "ok" -> Some VOk | "err" -> Some VErr
                | _ -> (match int_of_string_opt v with Some c -> Some (VCode (z_of_int c)) | None -> Some VErr))
      else if k = "ops" then ops := List.init (String.length v) (fun j -> res_of_char v.[j])
      else if k.[0] = 'a' then
        arbs := (if v = "" then [] else List.map parse_ev (String.split_on_char ',' v)) :: !arbs
      else failwith ("field " ^ f)) fields;
  { g_ret = !ret; g_arbs = List.rev !arbs; g_ops = !ops }

let show_log (g : log) =
  let b = Buffer.create 64 in
  Buffer.add_string b "ret=";
  Buffer.add_string b (match g.g_ret with None -> "none" | Some VOk -> "ok" | Some VErr -> "err" | Some (VCode c) -> string_of_int (int_of_z c));
  Buffer.add_string b ";ops=";
  List.iter (fun r -> Buffer.add_char b (char_of_res r)) g.g_ops;
  List.iteri (fun k l ->
    Buffer.add_string b (Printf.sprintf ";a%d=" k);
    Buffer.add_string b (String.concat "," (List.map (fun e ->
      Printf.sprintf "%d:%d:%d" (int_of_nat e.e_tid) (int_of_nat e.e_thr) (int_of_nat e.e_sys)) l))) g.g_arbs;
  Buffer.contents b

let verdict userun ops g =
  match int_of_nat (rt_accepts_why userun ops g) with 0 -> "ok" | n -> "bad:" ^ string_of_int n

let accept line =
  match String.index_opt line '#' with
  | None -> failwith "accept: no #"
  | Some i ->
    let (userun, _, ops) = parse_case (String.sub line 0 i) in
    let g = parse_log (String.sub line (i + 1) (String.length line - i - 1)) in
    verdict userun ops g

(* labels that can change the state *)
let labels (s : st) =
  let n = List.length s.arbs in
  let per = List.concat (List.init n (fun k -> let k = nat_of_int k in [LRunner k; LTask k; LDrop k])) in
  LCoord :: LSys :: LSysRet :: per
let enabled s = List.filter_map (fun l -> let s' = step s l in if s' <> s then Some s' else None) (labels s)

let run_mode line =
  let (userun, seed, ops) = parse_case line in
  let rng = Random.State.make [| seed; 77 |] in
  let bias = seed mod 3 in
  let rec go s fuel =
    if fuel = 0 then s else
    match enabled s with
    | [] -> s
    | l ->
      (* bias 0: coordinator first (everything queued before anyone moves); 2: coordinator last; 1: uniform *)
      let c = coord s in
      let pick =
        if bias = 0 && c <> s && Random.State.int rng 4 <> 0 then c
        else if bias = 2 && List.length l > 1 && Random.State.int rng 4 <> 0 then
          (let l' = List.filter (fun x -> x <> c) l in List.nth l' (Random.State.int rng (List.length l')))
        else List.nth l (Random.State.int rng (List.length l)) in
      go pick (fuel - 1) in
  let s = go (init ops) 100000 in
  let g = observable_log userun s in
  show_log g ^ " # " ^ verdict userun ops g

let explore line =
  let (userun, _, ops) = parse_case line in
  let cap = 300000 in
  let seen = Hashtbl.create 4096 in
  let q = Queue.create () in
  let key s = Marshal.to_string s [] in
  let s0 = init ops in
  Hashtbl.add seen (key s0) (); Queue.add s0 q;
  let trans = ref 0 and bad = ref 0 and term = ref 0 and capped = ref 0 in
  while not (Queue.is_empty q) do
    let s = Queue.pop q in
    if int_of_nat (rt_accepts_why userun ops (observable_log userun s)) <> 0 then incr bad;
    let succ = enabled s in
    if succ = [] then incr term;
    List.iter (fun s' ->
      incr trans;
      let k = key s' in
      if not (Hashtbl.mem seen k) then
        if Hashtbl.length seen >= cap then capped := 1
        else (Hashtbl.add seen k (); Queue.add s' q)) succ
  done;
  Printf.sprintf "%d %d %d %d %d" (Hashtbl.length seen) !trans !bad !term !capped


(* is the implementation's log one of the logs the model can produce?  All schedules are explored; a state counts
   once the coordinator has executed the whole script.  The harness reads the return value and the per-arbiter
   logs at two different moments, so the two projections (ops, arbs) and (ops, ret) are looked up separately. *)
let member line =
  match String.index_opt line '#' with
  | None -> failwith "member: no #"
  | Some i ->
    let (userun, _, ops) = parse_case (String.sub line 0 i) in
    let g = parse_log (String.sub line (i + 1) (String.length line - i - 1)) in
    let cap = 400000 in
    let seen = Hashtbl.create 4096 in
    let q = Queue.create () in
    let key s = Marshal.to_string s [] in
    let s0 = init ops in
    Hashtbl.add seen (key s0) (); Queue.add s0 q;
    let trans = ref 0 and capped = ref false and in_arbs = ref false and in_ret = ref false in
    while not (Queue.is_empty q) do
      let s = Queue.pop q in
      (if s.rest = [] then
         let m = observable_log userun s in
         if m.g_ops = g.g_ops then begin
           if m.g_arbs = g.g_arbs then in_arbs := true;
           if m.g_ret = g.g_ret then in_ret := true
         end);
      List.iter (fun s' ->
        incr trans;
        let k = key s' in
        if not (Hashtbl.mem seen k) then
          if Hashtbl.length seen >= cap then capped := true
          else (Hashtbl.add seen k (); Queue.add s' q)) (enabled s)
    done;
    Printf.sprintf "%s %d %d"
      (if !in_arbs && !in_ret then "in" else if !capped then "cap" else if not !in_arbs then "out:arbs" else "out:ret")
      (Hashtbl.length seen) !trans

let blockon line =
  match List.map int_of_string (words line) with
  | [p; v; sp] -> let (o, ran) = block_on (nat_of_int p) (z_of_int v) (nat_of_int sp) O in
                  Printf.sprintf "%d %d" (int_of_z o) (int_of_nat ran)
  | _ -> failwith "blockon"

let () =
  let f = match Sys.argv.(1) with
    | "accept" -> accept | "member" -> member | "run" -> run_mode | "explore" -> explore | "blockon" -> blockon
    | m -> failwith ("unknown mode " ^ m) in
  try while true do
    let line = input_line stdin in
    print_string (try f line with Failure e -> "ERROR " ^ e); print_char '\n'; flush stdout
  done with End_of_file -> ()
