//! Runtime::block_on returns exactly its future's output (C10).  case: "<pend> <value> <spawned>":
//! the future spawns <spawned> local tasks, then yields <pend> times, then returns <value>.
//! trace: "<returned value> <tasks run when block_on returned>"
use std::{cell::Cell, rc::Rc};

pub fn run_line(line: &str) -> String {
    let v: Vec<i64> = line.split_whitespace().map(|x| x.parse().unwrap()).collect();
    let (pend, value, spawned) = (v[0], v[1], v[2]);
    let ran = Rc::new(Cell::new(0i64));
    let rt = actix_rt::Runtime::new().unwrap();
    let r2 = ran.clone();
    let out = rt.block_on(async move {
        for _ in 0..spawned {
            let r3 = r2.clone();
            actix_rt::spawn(async move { r3.set(r3.get() + 1) });
        }
        for _ in 0..pend {
            actix_rt::task::yield_now().await;
        }
        value
    });
    format!("{} {}", out, ran.get())
}
