//! Factory-level cases: factory expression trees are interpreted with the REAL factory
//! combinators over scripted leaf factories; every level is type-erased with `boxed::factory`.
use std::cell::RefCell;
use std::future::Future;
use std::marker::PhantomData;
use std::panic::{catch_unwind, AssertUnwindSafe};
use std::pin::Pin;
use std::rc::Rc;
use std::sync::Arc;
use std::task::{Context, Poll};

use actix_service::boxed::{self, BoxFuture, BoxServiceFactory};
use actix_service::{
    apply, apply_cfg, apply_cfg_factory, apply_fn, apply_fn_factory, fn_factory, fn_factory_with_config,
    fn_service, map_config, unit_config, Service, ServiceExt, ServiceFactory, ServiceFactoryExt, Transform,
    TransformExt,
};

use crate::sx::{self, Sx};
use crate::{
    build, log, mk_waker, parse_res, parse_rs, run_ops, take_log, wid, Beh, Leaf, LeafFut, Mapper, PostFut, Rans,
    BS, FUEL, Z,
};

pub type BF<C> = BoxServiceFactory<C, Z, Z, Z, Z>;

/// config values: `()` or a number
pub trait CfgLike: Clone + 'static {
    fn opt(&self) -> Option<Z>;
    fn map(self, m: Mapper) -> Self;
    fn parse(s: &str) -> Self;
}
impl CfgLike for () {
    fn opt(&self) -> Option<Z> {
        None
    }
    fn map(self, _m: Mapper) -> Self {
        panic!("map_config over the unit config is not expressible")
    }
    fn parse(s: &str) -> Self {
        assert!(s == "u");
    }
}
impl CfgLike for Z {
    fn opt(&self) -> Option<Z> {
        Some(*self)
    }
    fn map(self, m: Mapper) -> Self {
        m.app('c', self)
    }
    fn parse(s: &str) -> Self {
        s.parse().unwrap()
    }
}
fn show_cfg(c: Option<Z>) -> String {
    match c {
        None => "u".to_string(),
        Some(z) => format!("{z}"),
    }
}

// ---------------------------------------------------------------------------------------------
// scripted leaf factory
// ---------------------------------------------------------------------------------------------
#[derive(Clone)]
struct FBeh {
    fd: Z,
    fdm: Z,
    fec: Z,
    rs: String,
    beh: Beh,
}

/// a scripted init future: Pending^k, then Ready(out()); a poll after completion is recorded
struct ScriptFut<T> {
    id: usize,
    k: usize,
    done: bool,
    out: Box<dyn Fn() -> Result<T, Z>>,
}
impl<T> Future for ScriptFut<T> {
    type Output = Result<T, Z>;
    fn poll(self: Pin<&mut Self>, cx: &mut Context<'_>) -> Poll<Self::Output> {
        let this = unsafe { self.get_unchecked_mut() }; // no field is structurally pinned
        let w = wid(cx);
        if this.done {
            log(format!("y{}@{}", this.id, w));
            return Poll::Ready((this.out)());
        }
        if this.k == 0 {
            this.done = true;
            log(format!("i{}@{}:d", this.id, w));
            Poll::Ready((this.out)())
        } else {
            this.k -= 1;
            log(format!("i{}@{}:p", this.id, w));
            Poll::Pending
        }
    }
}

fn leaf_start(id: usize, fb: &FBeh, cfg: Option<Z>) -> ScriptFut<Leaf> {
    log(format!("n{}({})", id, show_cfg(cfg)));
    let z = cfg.unwrap_or(0);
    let k = (fb.fd + fb.fdm * z).rem_euclid(3) as usize;
    let fail = fb.fec >= 0 && z.rem_euclid(3) == fb.fec;
    let fb = fb.clone();
    ScriptFut {
        id,
        k,
        done: false,
        out: Box::new(move || {
            if fail {
                Err(200 + z)
            } else {
                Ok(Leaf { id, rs: RefCell::new(parse_rs(&fb.rs)), beh: fb.beh.with_off(z) })
            }
        }),
    }
}

struct LeafFactory<C> {
    id: usize,
    fb: FBeh,
    _c: PhantomData<C>,
}
impl<C: CfgLike> ServiceFactory<Z> for LeafFactory<C> {
    type Response = Z;
    type Error = Z;
    type Config = C;
    type Service = Leaf;
    type InitError = Z;
    type Future = ScriptFut<Leaf>;
    fn new_service(&self, cfg: C) -> Self::Future {
        leaf_start(self.id, &self.fb, cfg.opt())
    }
}

// ---------------------------------------------------------------------------------------------
// apply_cfg / apply_cfg_factory closure
// ---------------------------------------------------------------------------------------------
fn cfg_fn<C: CfgLike>(id: usize, k: usize, fail: Option<Z>) -> impl Fn(C, &Rc<BS>) -> ScriptFut<BS> + Clone {
    move |cfg: C, svc: &Rc<BS>| {
        log(format!("g{}({})", id, show_cfg(cfg.opt())));
        let z = cfg.opt().unwrap_or(0);
        let rc = svc.clone();
        ScriptFut {
            id,
            k,
            done: false,
            out: Box::new(move || match fail {
                Some(e) => Err(e),
                None => {
                    let m = Mapper::Add(z);
                    Ok(boxed::service(rc.clone().map(move |v| m.app('o', v))))
                }
            }),
        }
    }
}

/// adapter: a factory whose services are `Rc<BS>` (so that the apply_cfg_factory closure can keep one)
struct RcFac(BF<()>);
struct RcFut(BoxFuture<Result<BS, Z>>);
impl Future for RcFut {
    type Output = Result<Rc<BS>, Z>;
    fn poll(mut self: Pin<&mut Self>, cx: &mut Context<'_>) -> Poll<Self::Output> {
        self.0.as_mut().poll(cx).map(|r| r.map(Rc::new))
    }
}
impl ServiceFactory<Z> for RcFac {
    type Response = Z;
    type Error = Z;
    type Config = ();
    type Service = Rc<BS>;
    type InitError = Z;
    type Future = RcFut;
    fn new_service(&self, _: ()) -> RcFut {
        RcFut(self.0.new_service(()))
    }
}

// ---------------------------------------------------------------------------------------------
// the harness Transform.  `TransformExt::map_init_err` is only implemented for `T: Transform<T, Req>`,
// so the transform is at the same time the type of the services it wraps ("Dual").
// ---------------------------------------------------------------------------------------------
#[derive(Clone)]
struct TSpec {
    id: usize,
    k: usize,
    fail: Option<Z>,
    pre: Mapper,
    post: Mapper,
}
struct Dual {
    svc: Option<Rc<BS>>,
    spec: Option<TSpec>,
}
impl Service<Z> for Dual {
    type Response = Z;
    type Error = Z;
    type Future = BoxFuture<Result<Z, Z>>;
    fn poll_ready(&self, cx: &mut Context<'_>) -> Poll<Result<(), Z>> {
        self.svc.as_ref().unwrap().poll_ready(cx)
    }
    fn call(&self, req: Z) -> Self::Future {
        self.svc.as_ref().unwrap().call(req)
    }
}
impl Transform<Dual, Z> for Dual {
    type Response = Z;
    type Error = Z;
    type Transform = Dual;
    type InitError = Z;
    type Future = ScriptFut<Dual>;
    fn new_transform(&self, service: Dual) -> Self::Future {
        let spec = self.spec.clone().unwrap();
        log(format!("t{}", spec.id));
        let inner: Rc<BS> = service.svc.unwrap();
        ScriptFut {
            id: spec.id,
            k: spec.k,
            done: false,
            out: Box::new(move || match spec.fail {
                Some(e) => Err(e),
                None => {
                    let (pre, post) = (spec.pre, spec.post);
                    let s = apply_fn(inner.clone(), move |req: Z, svc: &Rc<BS>| {
                        let fut = svc.call(pre.app('a', req));
                        PostFut::new(fut, post)
                    });
                    Ok(Dual { svc: Some(Rc::new(boxed::service(s))), spec: None })
                }
            }),
        }
    }
}
/// adapter: the services of the inner factory as `Dual`s
struct DualFac<C>(BF<C>);
struct DualFut(BoxFuture<Result<BS, Z>>);
impl Future for DualFut {
    type Output = Result<Dual, Z>;
    fn poll(mut self: Pin<&mut Self>, cx: &mut Context<'_>) -> Poll<Self::Output> {
        self.0.as_mut().poll(cx).map(|r| r.map(|s| Dual { svc: Some(Rc::new(s)), spec: None }))
    }
}
impl<C: CfgLike> ServiceFactory<Z> for DualFac<C> {
    type Response = Z;
    type Error = Z;
    type Config = C;
    type Service = Dual;
    type InitError = Z;
    type Future = DualFut;
    fn new_service(&self, cfg: C) -> DualFut {
        DualFut(self.0.new_service(cfg))
    }
}

// ---------------------------------------------------------------------------------------------
// factory expressions -> real combinators
// ---------------------------------------------------------------------------------------------
fn optz(s: &str) -> Option<Z> {
    if s == "-" {
        None
    } else {
        Some(s.parse().unwrap())
    }
}

pub fn build_fac<C: CfgLike>(x: &Sx) -> BF<C> {
    let l = x.list();
    match l[0].atom() {
        "FL" => {
            let id: usize = l[1].atom().parse().unwrap();
            let fb = FBeh {
                fd: l[3].atom().parse().unwrap(),
                fdm: l[4].atom().parse().unwrap(),
                fec: l[5].atom().parse().unwrap(),
                rs: l[6].atom().to_string(),
                beh: Beh::parse(l[7].atom(), l[8].atom(), l[9].atom(), l[10].atom()),
            };
            match l[2].atom() {
                "d" => boxed::factory(LeafFactory::<C> { id, fb, _c: PhantomData }),
                "n" => boxed::factory(fn_factory::<_, C, Leaf, Z, _, Z>(move || leaf_start(id, &fb, None))),
                "c" => boxed::factory(fn_factory_with_config::<_, _, C, Leaf, Z, Z>(move |cfg: C| {
                    leaf_start(id, &fb, cfg.opt())
                })),
                k => panic!("lkind {k}"),
            }
        }
        "FS" => {
            let id: usize = l[1].atom().parse().unwrap();
            let beh = Beh::parse(l[2].atom(), l[3].atom(), l[4].atom(), l[5].atom());
            // InitError of fn_service is (); it never fails, map_init_err only converts the type
            boxed::factory(
                fn_service::<_, _, Z, Z, Z, C>(move |req: Z| LeafFut::start(id, &beh, req)).map_init_err(|()| -1),
            )
        }
        "FA" => boxed::factory(build_fac::<C>(&l[1]).and_then(build_fac::<C>(&l[2]))),
        "FM" => {
            let m = Mapper::parse(l[1].atom());
            boxed::factory(build_fac::<C>(&l[2]).map(move |v| m.app('o', v)))
        }
        "FE" => {
            let m = Mapper::parse(l[1].atom());
            boxed::factory(build_fac::<C>(&l[2]).map_err(move |e| m.app('e', e)))
        }
        "FI" => {
            let m = Mapper::parse(l[1].atom());
            boxed::factory(build_fac::<C>(&l[2]).map_init_err(move |e| m.app('i', e)))
        }
        "FP" => {
            let pre = Mapper::parse(l[1].atom());
            let post = Mapper::parse(l[2].atom());
            boxed::factory(apply_fn_factory(build_fac::<C>(&l[3]), move |req: Z, svc: &BS| {
                let fut = svc.call(pre.app('a', req));
                PostFut::new(fut, post)
            }))
        }
        "FK" => {
            let r = parse_res(l[1].atom());
            boxed::factory(apply_fn_factory(build_fac::<C>(&l[2]), move |_req: Z, _svc: &BS| std::future::ready(r)))
        }
        "FC" => {
            let m = Mapper::parse(l[1].atom());
            boxed::factory(map_config(build_fac::<C>(&l[2]), move |c: C| c.map(m)))
        }
        "FU" => boxed::factory(unit_config::<_, _, C, Z>(build_fac::<()>(&l[1]))),
        "FG" => {
            let s = Rc::new(build(&l[1]));
            let f = cfg_fn::<C>(l[2].atom().parse().unwrap(), l[3].atom().parse().unwrap(), optz(l[4].atom()));
            boxed::factory(apply_cfg(s, f))
        }
        "FH" => {
            let inner = RcFac(build_fac::<()>(&l[1]));
            let f = cfg_fn::<C>(l[2].atom().parse().unwrap(), l[3].atom().parse().unwrap(), optz(l[4].atom()));
            boxed::factory(apply_cfg_factory(inner, f))
        }
        "FT" => {
            let spec = TSpec {
                id: l[1].atom().parse().unwrap(),
                k: l[2].atom().parse().unwrap(),
                fail: optz(l[3].atom()),
                pre: Mapper::parse(l[6].atom()),
                post: Mapper::parse(l[7].atom()),
            };
            let rc = l[4].atom() == "1";
            let mie = if l[5].atom() == "-" { None } else { Some(Mapper::parse(l[5].atom())) };
            let inner = DualFac(build_fac::<C>(&l[8]));
            let t = Dual { svc: None, spec: Some(spec) };
            match (rc, mie) {
                (false, None) => boxed::factory(apply(t, inner)),
                (true, None) => boxed::factory(apply(Rc::new(t), inner)),
                (false, Some(m)) => boxed::factory(apply(t.map_init_err(move |e| m.app('t', e)), inner)),
                (true, Some(m)) => boxed::factory(apply(Rc::new(t.map_init_err(move |e| m.app('t', e))), inner)),
            }
        }
        "FW" => {
            let inner = build_fac::<C>(&l[2]);
            match l[1].atom() {
                "bx" => boxed::factory(inner),
                "rc" => boxed::factory(Rc::new(inner)),
                "ar" => boxed::factory(Arc::new(inner)),
                k => panic!("fwrapk {k}"),
            }
        }
        h => panic!("fexpr head {h}"),
    }
}

fn holds_service(f: &Sx) -> bool {
    let t = format!("{f:?}");
    t.contains("\"FG\"") || t.contains("\"L\"")
}

fn run_fac<C: CfgLike>(f: &Sx, cfg: &str, ops: &[&str]) -> String {
    let fac = build_fac::<C>(f);
    // For half of the cases the factory has been used before: one `new_service` with the same config, driven to its end, its
    // result and log discarded.  A factory builds everything anew for every `new_service` (the leaf factories are stateless
    // scripts), so what follows is the same as for a fresh factory.
    // (not where the factory itself holds a scripted leaf SERVICE — `apply_cfg(service, ..)` — whose readiness script would be
    // consumed by the first use)
    if !holds_service(f) && (cfg.len() + ops.len() + ops.iter().map(|o| o.len()).sum::<usize>()) % 2 == 0 {
        let warm_cfg = C::parse(cfg);
        if let Ok(mut fut) = catch_unwind(AssertUnwindSafe(|| fac.new_service(warm_cfg))) {
            for k in 0..FUEL {
                let wk = mk_waker(10_000 + k);
                let mut cx = Context::from_waker(&wk);
                match catch_unwind(AssertUnwindSafe(|| fut.as_mut().poll(&mut cx))) {
                    Ok(Poll::Pending) => {}
                    _ => break,
                }
            }
            std::mem::forget(fut);
        }
        let _ = take_log();
    }
    let cfg = C::parse(cfg);
    let mut out = Vec::new();
    let mut w = 0usize;
    let mut polls = 0;
    let mut res = "P".to_string();
    let mut built: Option<BS> = None;
    match catch_unwind(AssertUnwindSafe(|| fac.new_service(cfg))) {
        Err(_) => res = "X".to_string(),
        Ok(mut fut) => {
            while polls < FUEL {
                let wk = mk_waker(w);
                w += 1;
                polls += 1;
                let mut cx = Context::from_waker(&wk);
                match catch_unwind(AssertUnwindSafe(|| fut.as_mut().poll(&mut cx))) {
                    Ok(Poll::Pending) => {}
                    Ok(Poll::Ready(Ok(s))) => {
                        res = "O".to_string();
                        built = Some(s);
                        break;
                    }
                    Ok(Poll::Ready(Err(e))) => {
                        res = format!("E{e}");
                        break;
                    }
                    Err(_) => {
                        res = "X".to_string();
                        break;
                    }
                }
            }
            std::mem::forget(fut);
        }
    }
    out.push(format!("N[{}]={}/{}", take_log(), res, polls));
    if let Some(svc) = built {
        out.extend(run_ops(&svc, &mut w, ops));
    }
    out.join(" ")
}

pub fn fac_case(line: &str) -> String {
    let parts: Vec<&str> = line.split(';').map(|s| s.trim()).collect();
    assert!(parts.len() == 3, "case");
    let f = sx::parse(parts[0]);
    let ops: Vec<&str> = parts[2].split_whitespace().collect();
    if parts[1] == "u" {
        run_fac::<()>(&f, parts[1], &ops)
    } else {
        run_fac::<Z>(&f, parts[1], &ops)
    }
}

#[allow(dead_code)]
fn _unused(_: Rans) {}
