"""Shared machinery for the /verif checks (see DESIGN.md §8).

A property plugin (vp/props/cXX.py) provides META (a dict) and `streams(ctx)` returning a list
of Stream objects (batches of cases that are run through the implementation harness and through
the extracted Coq model), or `custom(ctx)` for anything that does not fit that shape.
The engine:
  1. proof obligations: make Props/<id>.vo (+ extraction targets), re-run coqc on the Props file,
     parse Print Assumptions, scan the dependency closure for forbidden vernacular;
  2. builds the OCaml driver and the Rust harness from the current sources (/repo working tree);
  3. runs every stream on both sides, diffs the traces, runs the monitor on implementation traces;
  4. verdict, replay files, known findings, evidence.
"""
import hashlib
import json
import os
import random
import re
import shutil
import subprocess
import sys
import time
from concurrent.futures import ThreadPoolExecutor

ROOT = os.path.dirname(os.path.dirname(os.path.abspath(__file__)))
COQ = os.path.join(ROOT, "coq")
OCAML = os.path.join(ROOT, "ocaml")
HARNESS = os.path.join(ROOT, "harness")
# the three output locations can be redirected (used when a check is run against a seeded change in a private
# mount namespace, so that the committed evidence and the shared build directory are left alone)
EVID = os.environ.get("VERIF_EVID_DIR") or os.path.join(ROOT, "evidence")
REPLAY = os.path.join(EVID, "replay")
CORPUS = os.path.join(ROOT, "corpus")
WORK = os.environ.get("VERIF_WORK_DIR") or os.path.join(ROOT, ".work")
HARNESS_TARGET = os.environ.get("CARGO_TARGET_DIR") or os.path.join(HARNESS, "target")
NCPU = min(16, os.cpu_count() or 4)
# speed of a check that FAILS (see run_stream / shrink_case): minimisation is bounded in wall-clock time, and once a violation has
# been reported the streams that follow run on a sample
SHRINK_WALL_S = 60.0
SHRINK_WALL_TOTAL_S = 150.0
AFTER_VIOLATION_CASES = 4000
SCOUT_ABOVE = 20000
POST_VIOLATION_TIMEOUT_S = 90
RETRY_TIMEOUT_S = 120
SCOUT_CASES = 2000

ENV = dict(os.environ)
ENV.setdefault("CARGO_NET_OFFLINE", "true")
ENV["CARGO_TERM_COLOR"] = "never"

BASE_TRUSTED = [
    "Coq 8.16.1 kernel (coqc; vm_compute for Examples/finite sweeps; native_compute not used)",
    "Coq extraction to OCaml with ExtrOcamlBasic only (Extract Inductive bool/option/unit/list/prod/sumbool/sumor; "
    "no Extract Constant), OCaml 4.13.1 compiler, hand-written driver (parser/printer)",
    "Rust correspondence harness (script interpreter, scripted mocks, canonical trace printer)",
    "hand-written Gallina model; tie to /repo is the correspondence run of this check, bounded by its generators",
]


def log(*a):
    print(*a, file=sys.stderr, flush=True)


def sh(cmd, cwd=None, timeout=None, env=None, inp=None):
    """run, return (rc, stdout+stderr)"""
    try:
        p = subprocess.run(cmd, cwd=cwd, env=env or ENV, input=inp, stdout=subprocess.PIPE,
                           stderr=subprocess.STDOUT, timeout=timeout, text=True, shell=isinstance(cmd, str))
        return p.returncode, p.stdout
    except subprocess.TimeoutExpired as e:
        out = e.stdout if isinstance(e.stdout, str) else (e.stdout or b"").decode("utf8", "replace")
        return 124, out + "\n[timeout]"


# --------------------------------------------------------------------------------------------
# Coq side
# --------------------------------------------------------------------------------------------
def gen_coqproject():
    """_CoqProject lists every .v under coq/ (sorted); the Makefile is regenerated when it changes."""
    files = []
    for d, _, fs in os.walk(COQ):
        for f in fs:
            if f.endswith(".v") and not f.startswith("."):
                files.append(os.path.relpath(os.path.join(d, f), COQ))
    files.sort()
    txt = "-Q . AN\n-arg -w -arg -notation-overridden,-deprecated-hint-without-locality,-deprecated-instance-without-locality\n" + "\n".join(files) + "\n"
    p = os.path.join(COQ, "_CoqProject")
    old = open(p).read() if os.path.exists(p) else ""
    if old != txt or not os.path.exists(os.path.join(COQ, "Makefile")):
        open(p, "w").write(txt)
        rc, out = sh(["coq_makefile", "-f", "_CoqProject", "-o", "Makefile"], cwd=COQ, timeout=120)
        if rc != 0:
            raise RuntimeError("coq_makefile failed:\n" + out)


def strip_comments(src):
    """remove (* ... *) comments (nested), keep strings"""
    out = []
    depth = 0
    i = 0
    n = len(src)
    instr = False
    while i < n:
        c = src[i]
        if depth == 0 and c == '"':
            instr = not instr
            out.append(c)
            i += 1
        elif not instr and src.startswith("(*", i):
            depth += 1
            i += 2
        elif not instr and depth > 0 and src.startswith("*)", i):
            depth -= 1
            i += 2
        else:
            if depth == 0:
                out.append(c)
            elif c == "\n":
                out.append(c)
            i += 1
    return "".join(out)


FORBIDDEN = re.compile(
    r"\b(Admitted|admit|Axiom|Axioms|Parameter|Parameters|Conjecture|Conjectures|Admit\s+Obligations|"
    r"Unset\s+Guard\s+Checking|Unset\s+Positivity\s+Checking|Unset\s+Universe\s+Checking|bypass_check|"
    r"Guard\s+Checking|type-in-type|impredicative-set|give_up)\b")
SECTION_ONLY = re.compile(r"^\s*(Local\s+|Global\s+)?(Variable|Variables|Hypothesis|Hypotheses|Context)\b")


def scan_forbidden(files):
    """returns list of 'file:line: text' for forbidden vernacular in the given .v files"""
    bad = []
    for f in files:
        try:
            src = strip_comments(open(f).read())
        except OSError:
            continue
        depth = 0
        for ln, line in enumerate(src.split("\n"), 1):
            if re.match(r"^\s*(Section|Module\s+Type)\s+\w+", line):
                depth += 1 if line.strip().startswith("Section") else 0
            if FORBIDDEN.search(line):
                bad.append("%s:%d: %s" % (os.path.relpath(f, ROOT), ln, line.strip()))
            if SECTION_ONLY.match(line) and depth == 0:
                bad.append("%s:%d: (outside a Section) %s" % (os.path.relpath(f, ROOT), ln, line.strip()))
            m = re.match(r"^\s*End\s+\w+", line)
            if m and depth > 0:
                depth -= 1
    return bad


def dep_closure(vfile):
    """transitive AN.* dependencies of a .v file (paths relative to coq/), via coqdep"""
    seen = set()
    todo = [vfile]
    while todo:
        f = todo.pop()
        if f in seen:
            continue
        seen.add(f)
        rc, out = sh(["coqdep", "-Q", ".", "AN", f], cwd=COQ, timeout=60)
        for tok in re.findall(r"(\S+)\.vo\b", out.split(":", 1)[1] if ":" in out else ""):
            g = tok + ".v"
            if os.path.exists(os.path.join(COQ, g)) and g not in seen:
                todo.append(g)
    return sorted(seen)


def coq_obligations(pid, targets, axioms_allowed=(), make_timeout=1500):
    """Build the property's proof obligations. Returns dict with obligations/discharged/failures."""
    res = {"obligations": 0, "discharged": 0, "failures": [], "theorems": [], "axioms": {}, "files": []}
    gen_coqproject()
    props_v = "Props/%s.v" % pid
    tg = list(dict.fromkeys(["Props/%s.vo" % pid] + list(targets)))
    t0 = time.time()
    rc, out = sh(["make", "-j%d" % NCPU] + tg, cwd=COQ, timeout=make_timeout)
    res["make_s"] = round(time.time() - t0, 1)
    if rc != 0:
        tail = "\n".join(out.strip().split("\n")[-25:])
        res["failures"].append("make %s failed (rc=%d):\n%s" % (" ".join(tg), rc, tail))
    src = strip_comments(open(os.path.join(COQ, props_v)).read())
    thms = re.findall(r"^\s*Theorem\s+(\w+)", src, re.M)
    pas = re.findall(r"^\s*Print\s+Assumptions\s+(\w+)\s*\.", src, re.M)
    res["theorems"] = thms
    res["obligations"] = len(thms)
    for t in thms:
        if t not in pas:
            res["failures"].append("theorem %s has no Print Assumptions in %s" % (t, props_v))
    if rc == 0:
        os.makedirs(WORK, exist_ok=True)
        os.makedirs(os.path.join(WORK, "recheck"), exist_ok=True)
        tmpo = os.path.join(WORK, "recheck", "%s.vo" % pid)
        rc2, out2 = sh(["coqc", "-Q", ".", "AN", "-w", "-notation-overridden", "-o", tmpo, props_v], cwd=COQ, timeout=make_timeout)
        if rc2 != 0:
            res["failures"].append("coqc %s failed:\n%s" % (props_v, "\n".join(out2.strip().split("\n")[-25:])))
        else:
            # split output into one block per Print Assumptions
            blocks = re.split(r"(?m)^(?=Closed under the global context|Axioms:)", out2)
            blocks = [b for b in blocks if b.startswith("Closed under") or b.startswith("Axioms:")]
            if len(blocks) != len(pas):
                res["failures"].append("expected %d Print Assumptions outputs, got %d" % (len(pas), len(blocks)))
            for name, b in zip(pas, blocks):
                if b.startswith("Closed under"):
                    res["axioms"][name] = []
                else:
                    ax = re.findall(r"(?m)^([A-Za-z_][\w.']*)\s*:", b)
                    res["axioms"][name] = ax
                    extra = [a for a in ax if a not in axioms_allowed and a.split(".")[-1] not in axioms_allowed]
                    if extra:
                        res["failures"].append("theorem %s depends on axioms not in the allow-list: %s" % (name, ", ".join(extra)))
            res["discharged"] = sum(1 for t in thms if t in res["axioms"] and not any(
                ("theorem %s " % t) in f for f in res["failures"]))
    # forbidden vernacular in the dependency closure
    files = dep_closure(props_v)
    for t in targets:
        if t.endswith(".vo"):
            files = sorted(set(files) | set(dep_closure(t[:-1])))
    res["files"] = files
    bad = scan_forbidden([os.path.join(COQ, f) for f in files])
    for b in bad:
        res["failures"].append("forbidden vernacular: " + b)
    if res["failures"]:
        res["discharged"] = min(res["discharged"], max(0, res["obligations"] - 1)) if rc == 0 else 0
    return res


def coqchk(pid, allowed=(), timeout=1800):
    """thorough tier: re-check the compiled Props file and everything it depends on with the independent checker and
    list the axioms of the whole context. Returns (summary dict, failures list)."""
    rc, out = sh(["coqchk", "-o", "-silent", "-Q", ".", "AN", "AN.Props.%s" % pid], cwd=COQ, timeout=timeout)
    info = {"rc": rc}
    fails = []
    if rc != 0:
        fails.append("coqchk AN.Props.%s failed (rc=%d): %s" % (pid, rc, out[-1500:]))
        return info, fails
    m = re.search(r"\* Axioms:(.*?)\n\s*\n\* Constants/Inductives relying on type-in-type:(.*?)\n\s*\n"
                  r"\* Constants/Inductives relying on unsafe \(co\)fixpoints:(.*?)\n\s*\n\* Inductives whose positivity is assumed:(.*?)\n", out, re.S)
    if not m:
        fails.append("coqchk output not understood: %s" % out[-800:])
        return info, fails
    names = ["axioms", "type_in_type", "unsafe_fixpoints", "assumed_positivity"]
    for k, v in zip(names, m.groups()):
        items = [x.strip() for x in v.strip().split("\n") if x.strip() and x.strip() != "<none>"]
        info[k] = items
    extra = [a for a in info["axioms"] if a not in allowed and a.split(".")[-1] not in allowed]
    if extra:
        fails.append("coqchk: context relies on axioms not in the allow-list: %s" % ", ".join(extra))
    for k in names[1:]:
        if info[k]:
            fails.append("coqchk: %s: %s" % (k, ", ".join(info[k])))
    return info, fails


def coq_crosscheck(pid, goals, timeout=600):
    """Evaluate sampled cases inside Coq (vm_compute) and compare with the extracted run: `goals` is a list
    of (lhs, rhs) Gallina terms plus the needed imports; guards the extraction. Returns (n_ok, failures)."""
    if not goals:
        return 0, []
    imports, items = goals
    os.makedirs(WORK, exist_ok=True)
    p = os.path.join(WORK, "cross_%s.v" % pid)
    with open(p, "w") as f:
        f.write(imports + "\n")
        for i, (lhs, rhs) in enumerate(items):
            f.write("Goal (%s) = (%s). Proof. vm_compute. reflexivity. Qed.\n" % (lhs, rhs))
    rc, out = sh(["coqc", "-Q", COQ, "AN", "-w", "-notation-overridden", "-o", p + "o", p], cwd=WORK, timeout=timeout)
    if rc != 0:
        return 0, ["in-Coq evaluation disagrees with the extracted model:\n" + "\n".join(out.strip().split("\n")[-12:])]
    return len(items), []


# --------------------------------------------------------------------------------------------
# builds
# --------------------------------------------------------------------------------------------
def build_driver(group):
    d = os.path.join(OCAML, group)
    exe = os.path.join(d, "driver")
    srcs = [os.path.join(d, f) for f in os.listdir(d) if f.endswith(".ml") or f.endswith(".mli")]
    if not os.path.exists(os.path.join(d, "gen.ml")):
        raise RuntimeError("extraction output %s/gen.ml missing (coq build failed?)" % d)
    if os.path.exists(exe) and all(os.path.getmtime(s) <= os.path.getmtime(exe) for s in srcs):
        return exe
    extra = sorted(f for f in os.listdir(d) if f.endswith(".ml") and f not in ("gen.ml", "driver.ml"))
    cmd = ["ocamlfind", "ocamlopt", "-package", "str", "-linkpkg", "-w", "-a", "-O2", "gen.mli", "gen.ml"] + extra + ["driver.ml", "-o", "driver"]
    rc, out = sh(cmd, cwd=d, timeout=600)
    if rc != 0:
        raise RuntimeError("ocaml build failed in %s:\n%s" % (d, out[-3000:]))
    return exe


def build_harness(pkg, timeout=1500, features=None):
    """each harness crate is its own cargo workspace under harness/<pkg> (shared target dir, see harness/.cargo/config.toml)"""
    d = os.path.join(HARNESS, pkg)
    if not os.path.exists(os.path.join(d, "Cargo.lock")):
        shutil.copy("/repo/Cargo.lock", os.path.join(d, "Cargo.lock"))
    cmd = ["cargo", "build", "--release", "--offline"]
    if features:
        cmd += ["--features", features]
    t0 = time.time()
    rc, out = sh(cmd, cwd=d, timeout=timeout)
    if rc != 0:
        raise BuildError("cargo build of %s failed (the harness is built against /repo's working tree):\n%s" % (pkg, out[-4000:]))
    return os.path.join(HARNESS_TARGET, "release", pkg), round(time.time() - t0, 1)


class BuildError(RuntimeError):
    pass


# --------------------------------------------------------------------------------------------
# running cases
# --------------------------------------------------------------------------------------------
def run_lines(cmd, cases, shards=NCPU, timeout=900, tag="x", cwd=None, per_shard=200):
    """Feed `cases` (list of single-line strings) to `cmd` on stdin, sharded; returns list of output lines
    (same length). A process that dies or hangs yields 'CRASH'/'HANG' for its first unanswered case and
    'SKIPPED' for the rest of the shard."""
    if not cases:
        return []
    os.makedirs(WORK, exist_ok=True)
    n = len(cases)
    shards = max(1, min(shards, (n + per_shard - 1) // per_shard))
    size = (n + shards - 1) // shards
    chunks = [cases[i:i + size] for i in range(0, n, size)]

    def one(ix):
        chunk = chunks[ix]
        inp = "\n".join(chunk) + "\n"
        try:
            p = subprocess.run(cmd, input=inp, stdout=subprocess.PIPE, stderr=subprocess.PIPE, timeout=timeout,
                               text=True, env=ENV, cwd=cwd)
            lines = p.stdout.split("\n")
            if lines and lines[-1] == "":
                lines.pop()
            status = "CRASH rc=%d %s" % (p.returncode, p.stderr.strip().split("\n")[-1][:200] if p.stderr.strip() else "")
        except subprocess.TimeoutExpired as e:
            so = e.stdout if isinstance(e.stdout, str) else (e.stdout or b"").decode("utf8", "replace")
            lines = so.split("\n")
            if lines:
                lines.pop()  # possibly partial
            status = "HANG"
        if len(lines) < len(chunk):
            k = len(lines)
            lines = lines + [status] + ["SKIPPED"] * (len(chunk) - k - 1)
        return lines[:len(chunk)]

    with ThreadPoolExecutor(max_workers=shards) as ex:
        outs = list(ex.map(one, range(len(chunks))))
    return [l for o in outs for l in o]


class Stream:
    """A batch of cases for one harness/driver mode.
    name         label used in evidence and replay files
    mode         argument given to both executables (or (impl_args, model_args))
    cases        list of single-line strings
    monitor      f(case, impl_trace, model_trace) -> bool : does the PROPERTY hold on the implementation trace?
                 (default: impl == model — right when the compared trace is exactly what the property fixes)
    nontrivial   f(case, model_trace) -> bool : counts towards distinct_nontrivial
    shrink       f(case) -> iterable of smaller candidate cases
    compare      f(impl_trace, model_trace) -> bool : do the traces agree (default ==)
    finding_key  f(case, impl_trace, model_trace) -> str : class key matched against known_findings.txt
    to_coq       f(case, model_trace) -> (lhs, rhs) Gallina terms or None (in-Coq cross-check sample)
    exhaustive   True when `cases` enumerates a finite space completely
    """

    def __init__(self, name, mode, cases, monitor=None, nontrivial=None, shrink=None, compare=None,
                 finding_key=None, to_coq=None, coq_imports="", exhaustive=False, describe="", timeout=900,
                 impl_cmd=None, model_cmd=None):
        self.name = name
        self.mode = mode
        self.cases = cases
        self.monitor = monitor or (lambda c, i, m: i == m)
        self.nontrivial = nontrivial or (lambda c, m: True)
        self.shrink = shrink
        self.compare = compare or (lambda i, m: i == m)
        self.finding_key = finding_key or (lambda c, i, m: "")
        self.to_coq = to_coq
        self.coq_imports = coq_imports
        self.exhaustive = exhaustive
        self.describe = describe
        self.timeout = timeout
        self.impl_cmd = impl_cmd
        self.model_cmd = model_cmd


def shrink_tokens(sep):
    """generic shrinker: drop one token / a run of tokens of a sep-separated case"""
    def f(case):
        toks = case.split(sep) if sep else list(case)
        n = len(toks)
        k = n // 2
        while k >= 1:
            for i in range(0, n - k + 1, max(1, k)):
                yield sep.join(toks[:i] + toks[i + k:])
            k //= 2
    return f


def shrink_hex(case):
    b = [case[i:i + 2] for i in range(0, len(case), 2)]
    n = len(b)
    k = n // 2
    while k >= 1:
        for i in range(0, n - k + 1, max(1, k)):
            yield "".join(b[:i] + b[i + k:])
        k //= 2


def load_known():
    p = os.path.join(ROOT, "known_findings.txt")
    out = []
    if os.path.exists(p):
        for line in open(p):
            line = line.strip()
            m = re.match(r"finding:\s+property=(\S+)\s+key=(\S+)\s+(.*)", line)
            if m:
                out.append((m.group(1), m.group(2), m.group(3)))
    return out


def load_corpus(pid, stream):
    """corpus/<pid>/<stream>.cases : one case per line, '#' comments"""
    p = os.path.join(CORPUS, pid, stream + ".cases")
    if not os.path.exists(p):
        return []
    return [l.rstrip("\n") for l in open(p) if l.strip() and not l.startswith("#")]


class Ctx:
    def __init__(self, meta, tier, seed):
        self.meta = meta
        self.pid = meta["id"]
        self.tier = tier
        self.seed = seed
        self.rng = random.Random(seed)
        self.t0 = time.time()
        self.violations = []      # (kind, replay_path, suffix, description)
        self.shrink_wall_left = SHRINK_WALL_TOTAL_S   # wall-clock budget of this run for minimising failing cases
        self.known_hits = []
        self.cov = {}
        self.impl_bin = None
        self.model_bin = None
        self.notes = []

    # -- violation bookkeeping ---------------------------------------------------------------
    def report(self, kind, payload, key="", nfi=False):
        """kind: 'property-fails' | 'correspondence-broken' | 'proof-broken' | 'build-broken'"""
        for (kp, kk, desc) in load_known():
            if kp == self.pid and key and kk == key:
                if (kk, desc) not in self.known_hits:
                    self.known_hits.append((kk, desc))
                return
        os.makedirs(REPLAY, exist_ok=True)
        payload = dict(payload)
        payload["property"] = self.pid
        payload["kind"] = kind
        payload["finding_key"] = key
        h = hashlib.sha1(json.dumps(payload, sort_keys=True).encode()).hexdigest()[:12]
        path = os.path.join(REPLAY, "%s-%s.json" % (self.pid, h))
        with open(path, "w") as f:
            json.dump(payload, f, indent=1)
        self.violations.append((kind, path, " no-failing-input-found" if nfi else "", payload.get("what", "")))

    # -- running one stream on both sides ----------------------------------------------------
    def cmds(self, st):
        mode = st.mode
        im, mm = (mode if isinstance(mode, tuple) else ([mode], [mode]))
        impl = st.impl_cmd or ([self.impl_bin] + list(im))
        model = st.model_cmd or ([self.model_bin] + list(mm))
        return impl, model

    def run_both(self, st, cases):
        impl_cmd, model_cmd = self.cmds(st)
        with ThreadPoolExecutor(max_workers=2) as ex:
            ps = getattr(st, "per_shard", 200)
            # once the verdict is settled (a violation has been reported) nothing waits long for an answer any more
            tmo = min(st.timeout, POST_VIOLATION_TIMEOUT_S) if self.violations else st.timeout
            fi = ex.submit(run_lines, impl_cmd, cases, NCPU, tmo, "impl", None, ps)
            fm = ex.submit(run_lines, model_cmd, cases, NCPU, tmo, "model", None, ps)
            impl, model = fi.result(), fm.result()
        # a shard that ran into the overall time limit (HANG: a loaded machine is enough for that) leaves its remaining cases without
        # an answer: run those again in smaller batches; a case that hangs by itself still hangs when it is run alone
        for side, cmd in ((impl, impl_cmd), (model, model_cmd)):
            for _ in range(2):
                if "HANG" not in side or self.violations:
                    break
                idx = [k for k, r in enumerate(side) if r in ("HANG", "SKIPPED")]
                # the batches are small now: what does not answer within the retry limit does not answer
                again = run_lines(cmd, [cases[k] for k in idx], NCPU, min(tmo, RETRY_TIMEOUT_S), "retry", None, max(1, min(ps, len(idx) // NCPU + 1)))
                for k, r in zip(idx, again):
                    side[k] = r
        return impl, model

    def fails_property(self, st, case):
        i, m = self.run_both(st, [case])
        return (not st.monitor(case, i[0], m[0])), i[0], m[0]

    def shrink_case(self, st, case, budget=400):
        if not st.shrink:
            return case
        budget = getattr(st, "shrink_budget", budget)
        cur = case
        improved = True
        t_end = time.time() + max(0.0, min(SHRINK_WALL_S, self.shrink_wall_left))
        t_start = time.time()
        while improved and budget > 0 and time.time() < t_end:
            improved = False
            cands = []
            for c in st.shrink(cur):
                if c != cur and c not in cands:
                    cands.append(c)
                if len(cands) >= 64:
                    break
            if not cands:
                break
            budget -= len(cands)
            i, m = self.run_both(st, cands)
            for c, ii, mm in zip(cands, i, m):
                if not st.monitor(c, ii, mm):
                    cur = c
                    improved = True
                    break
        self.shrink_wall_left -= time.time() - t_start
        return cur

    def probe_for_failing_input(self, st, mism, info):
        """The correspondence broke but the property's predicate holds on every explored trace: search for a concrete failing
        input.  A stream may offer `probe(case, impl_trace, model_trace) -> [cases]`: continuations of a disagreeing case that
        drive the implementation from the state it is in to a point where the property can be judged (release everything, issue
        fresh requests, settle).  Returns True iff a probe makes the property's predicate fail (reported as property-fails)."""
        probe = getattr(st, "probe", None)
        if not probe:
            return False
        probes = []
        for c, i, m in sorted(mism, key=lambda x: len(x[0]))[:24]:
            try:
                for pc in probe(c, i, m):
                    if pc not in probes:
                        probes.append(pc)
            except Exception:  # noqa: BLE001  (a probe that cannot be built is no probe)
                continue
        if not probes:
            return False
        pi, pm = self.run_both(st, probes)
        info["probes"] = len(probes)
        seen = set()
        for pc, ii, mm in sorted(zip(probes, pi, pm), key=lambda x: len(x[0])):
            if st.monitor(pc, ii, mm):
                continue
            key = st.finding_key(pc, ii, mm)
            if key in seen:
                continue
            seen.add(key)
            c2 = self.shrink_case(st, pc)
            f, i2, m2 = self.fails_property(st, c2)
            if not f:
                c2, i2, m2 = pc, ii, mm
            self.report("property-fails", {"stream": st.name, "mode": st.mode, "case": c2, "impl_trace": i2, "model_trace": m2,
                                           "original_case": pc, "n_mismatches": len(mism),
                                           "what": "implementation and model disagree on %d cases; continuing one of them (probe) "
                                                   "the property's predicate is false on the implementation's trace" % len(mism)},
                        key=st.finding_key(c2, i2, m2) or key)
            if len(seen) >= 2:
                break
        return bool(seen)

    def run_stream(self, st):
        corpus = load_corpus(self.pid, st.name)
        if getattr(st, "prepare", None):
            corpus = [st.prepare(c) for c in corpus]     # e.g. re-annotate a scenario with the current model's expectations
        own = list(st.cases)
        if self.violations and len(own) > AFTER_VIOLATION_CASES and not os.environ.get("VP_FULL_AFTER_VIOLATION"):
            # The verdict of this run is settled already (a violation has been reported): the remaining streams are still run, to
            # find other classes of failure, but on an evenly spaced sample — a tree that breaks the property often makes every
            # case slow (huge traces, time-outs), and a check that needs an hour to say "violated" is of no use.
            step = len(own) / float(AFTER_VIOLATION_CASES)
            own = [own[int(k * step)] for k in range(AFTER_VIOLATION_CASES)]
            self.cov.setdefault("reduced_after_violation", []).append(st.name)
        elif len(own) > SCOUT_ABOVE and not os.environ.get("VP_FULL_AFTER_VIOLATION"):
            # a large stream is scouted first: an evenly spaced sample of it (plus the corpus); if the sample already shows a
            # disagreement or a failing case, the stream is run on the sample only — same reason as above
            step = len(own) / float(SCOUT_CASES)
            scout = corpus + [own[int(k * step)] for k in range(SCOUT_CASES)]
            si, sm = self.run_both(st, scout)
            if any((not st.compare(i, m)) or (not st.monitor(c, i, m)) for c, i, m in zip(scout, si, sm)):
                own = scout[len(corpus):]
                self.cov.setdefault("reduced_after_violation", []).append(st.name + " (scout)")
        if len(own) != len(st.cases):
            st.cases = own      # callers index the results by position in st.cases
        cases = corpus + own
        n_corpus = len(cases) - len(own)
        t0 = time.time()
        impl, model = self.run_both(st, cases)
        nontriv = set()
        mism = []
        for c, i, m in zip(cases, impl, model):
            if st.nontrivial(c, m):
                nontriv.add(c)
            if not st.compare(i, m):
                mism.append((c, i, m))
        info = {"stream": st.name, "cases": len(cases), "corpus_cases": n_corpus, "distinct": len(set(cases)),
                "distinct_nontrivial": len(nontriv), "mismatches": len(mism),
                "exhaustive": bool(st.exhaustive) and not any(x.split(" ")[0] == st.name for x in self.cov.get("reduced_after_violation", [])),
                "describe": st.describe, "wall_s": round(time.time() - t0, 2),
                "samples": [{"case": c, "impl": i, "model": m} for c, i, m in
                            [(cases[k], impl[k], model[k]) for k in _sample_idx(len(cases), 3, self.rng)]]}
        try:
            info["input_distribution"] = (getattr(st, "stats", None) or default_stats)(cases, impl, model)
        except Exception as e:  # noqa: BLE001  (statistics must never break a check)
            info["input_distribution"] = {"error": str(e)[:200]}
        self.cov.setdefault("streams", []).append(info)
        if os.environ.get("VP_TRACE"):
            log("[%s] stream %s: %d cases, %d mismatches, run %.1fs (t=%.0fs)" % (self.pid, st.name, len(cases), len(mism), info["wall_s"], time.time() - self.t0))
        # monitor on the implementation trace of EVERY case (cheap ones are Python predicates)
        bad = []
        for c, i, m in zip(cases, impl, model):
            if not st.monitor(c, i, m):
                bad.append((c, i, m))
        if bad:
            # group by finding key, report the smallest of each class
            seen = set()
            for c, i, m in sorted(bad, key=lambda x: len(x[0]))[:50]:
                key = st.finding_key(c, i, m)
                if key in seen:
                    continue
                seen.add(key)
                c2 = self.shrink_case(st, c)
                f, i2, m2 = self.fails_property(st, c2)
                if not f:
                    c2, i2, m2 = c, i, m
                key = st.finding_key(c2, i2, m2) or key
                self.report("property-fails", {"stream": st.name, "mode": st.mode, "case": c2, "impl_trace": i2,
                                               "model_trace": m2, "original_case": c,
                                               "what": "the property's predicate is false on the implementation's trace of this case"},
                            key=key)
                if len(seen) >= 5:
                    break
        elif mism and self.probe_for_failing_input(st, mism, info):
            pass
        elif mism:
            c, i, m = sorted(mism, key=lambda x: len(x[0]))[0]
            self.report("correspondence-broken",
                        {"stream": st.name, "mode": st.mode, "case": c, "impl_trace": i, "model_trace": m,
                         "n_mismatches": len(mism),
                         "what": "correspondence %s/%s no longer checks: implementation and model traces differ on %d of %d cases; "
                                 "the property predicate holds on every implementation trace explored"
                                 % (self.pid, st.name, len(mism), len(cases))},
                        key=st.finding_key(c, i, m), nfi=True)
        # in-Coq cross-check of a sample (extraction guard)
        if st.to_coq and not mism:
            idx = _sample_idx(len(cases), 40 if self.tier == "quick" else 300, self.rng)
            items = [st.to_coq(cases[k], model[k]) for k in idx]
            items = [x for x in items if x]
            nok, fails = coq_crosscheck(self.pid + "_" + st.name, (st.coq_imports, items))
            info["coq_crosscheck"] = nok
            for f in fails:
                self.report("correspondence-broken", {"stream": st.name, "what": f}, nfi=True)
        return impl, model


def default_stats(cases, impl, model):
    """input distribution of a stream that does not describe its own: case sizes, the kinds of tokens (first letter of each
    space/comma/semicolon separated token), and the kinds of outcomes on the model side (first token of each trace entry)"""
    import re as _re
    if not cases:
        return {}
    lens = sorted(len(c) for c in cases)
    ntok = sorted(len([t for t in _re.split(r"[ ,;|]+", c) if t]) for c in cases)
    kinds = {}
    for c in cases[:20000]:
        for t in _re.split(r"[ ,;|]+", c):
            if t:
                k = t[0]
                kinds[k] = kinds.get(k, 0) + 1
    top = dict(sorted(kinds.items(), key=lambda kv: -kv[1])[:24])
    outs = {}
    for m in model[:20000]:
        for t in _re.split(r"[ ,;|]+", m)[:64]:
            if t:
                k = _re.sub(r"[0-9a-f]{3,}|\d+", "#", t)[:12]
                outs[k] = outs.get(k, 0) + 1
    otop = dict(sorted(outs.items(), key=lambda kv: -kv[1])[:24])
    q = lambda v, f: v[min(len(v) - 1, int(f * len(v)))]
    return {"case_chars_min_median_p90_max": [lens[0], q(lens, 0.5), q(lens, 0.9), lens[-1]],
            "tokens_per_case_min_median_p90_max": [ntok[0], q(ntok, 0.5), q(ntok, 0.9), ntok[-1]],
            "token_kinds_by_first_letter": top, "model_outcome_kinds": otop,
            "cases_sampled_for_kinds": min(len(cases), 20000)}


def _sample_idx(n, k, rng):
    if n <= k:
        return list(range(n))
    return sorted(rng.sample(range(n), k))


# --------------------------------------------------------------------------------------------
# top level
# --------------------------------------------------------------------------------------------
def finish(ctx, proof, level):
    meta = ctx.meta
    streams = ctx.cov.get("streams", [])
    evaluations = sum(s["cases"] for s in streams) + ctx.cov.get("extra_evaluations", 0)
    dn = sum(s["distinct_nontrivial"] for s in streams) + ctx.cov.get("extra_distinct_nontrivial", 0)
    samples = []
    for s in streams:
        for x in s["samples"]:
            samples.append(dict(x, stream=s["stream"]))
    samples += ctx.cov.get("extra_samples", [])
    if not samples:
        samples = [{"obligation": t} for t in proof.get("theorems", [])[:5]]
    cov = {
        "obligations": proof["obligations"],
        "discharged": proof["discharged"],
        "checker_cmd": "make -C coq Props/%s.vo && coqc -Q coq AN coq/Props/%s.v  (Print Assumptions parsed; forbidden-vernacular scan of the dependency closure)" % (ctx.pid, ctx.pid),
        "trusted_base": BASE_TRUSTED + list(meta.get("trusted_base", [])),
        "theorems": proof.get("theorems", []),
        "axioms": proof.get("axioms", {}),
        "coq_files": proof.get("files", []),
        "proof_failures": proof.get("failures", []),
        "evaluations": evaluations,
        "distinct_nontrivial": dn,
        "traces_validated_against_impl": evaluations,
        "rule": meta.get("rule", ""),
        "samples": samples[:12],
        "streams": [{k: v for k, v in s.items() if k != "samples"} for s in streams],
        "exhaustive": bool(streams) and all(s["exhaustive"] for s in streams),
        "known_findings_hit": [k for k, _ in ctx.known_hits],
    }
    for k, v in ctx.cov.items():
        if k not in ("streams",) and k not in cov:
            cov[k] = v
    ev = {
        "property_id": ctx.pid, "tier": ctx.tier, "seed": ctx.seed, "level": level,
        "coverage": cov, "assumptions": list(meta.get("assumptions", [])) + ctx.notes,
        "wall_s": round(time.time() - ctx.t0, 2), "violations": len(ctx.violations),
    }
    os.makedirs(EVID, exist_ok=True)
    with open(os.path.join(EVID, "%s.json" % ctx.pid), "w") as f:
        json.dump(ev, f, indent=1)
    for k, desc in ctx.known_hits:
        print("KNOWN-FINDING: property=%s %s" % (ctx.pid, desc))
    for kind, path, suffix, what in ctx.violations:
        print("VIOLATION property=%s replay=%s%s" % (ctx.pid, path, suffix))
    sys.stdout.flush()
    log("[%s] %s tier=%s seed=%d obligations=%d/%d evaluations=%d nontrivial=%d violations=%d wall=%.1fs" % (
        ctx.pid, "FAIL" if ctx.violations else "ok", ctx.tier, ctx.seed, proof["discharged"], proof["obligations"],
        evaluations, dn, len(ctx.violations), time.time() - ctx.t0))
    return 1 if ctx.violations else 0


def run_property(plugin, tier, seed):
    meta = plugin.META
    ctx = Ctx(meta, tier, seed)
    # 1. proofs
    proof = coq_obligations(ctx.pid, meta.get("coq_targets", []), meta.get("axioms_allowed", ()))
    if tier == "thorough" and not proof["failures"]:
        info, fails = coqchk(ctx.pid, meta.get("axioms_allowed", ()))
        ctx.cov["coqchk"] = info
        proof["failures"] += fails
    proof_broken = bool(proof["failures"])
    # 2. builds
    try:
        if meta.get("driver"):
            ctx.model_bin = build_driver(meta["driver"])
        if meta.get("harness"):
            ctx.impl_bin, ctx.cov["cargo_build_s"] = build_harness(meta["harness"], features=meta.get("features"))
    except BuildError as e:
        ctx.report("build-broken", {"what": "correspondence %s cannot be run: %s" % (ctx.pid, str(e)[-3000:])}, nfi=True)
        return finish(ctx, proof, meta.get("level", "proof"))
    except RuntimeError as e:
        if not proof_broken:
            raise
        ctx.notes.append("model driver not built: %s" % str(e)[:300])
    # 3. correspondence + monitor
    if ctx.model_bin or not meta.get("driver"):
        try:
            if hasattr(plugin, "custom"):
                plugin.custom(ctx)
            else:
                # small streams first: if one of them settles the verdict, the large ones run on a sample (see run_stream)
                for st in sorted(plugin.streams(ctx), key=lambda x: len(x.cases)):
                    ctx.run_stream(st)
        except Exception:  # noqa: BLE001
            # The comparison itself could not be completed (output of a shape the parsers do not know, a helper that fails on it):
            # the property is then not shown to hold — a violation without a failing input unless one was found before
            import traceback
            tb = traceback.format_exc()
            sys.stderr.write(tb)
            ctx.notes.append("correspondence run aborted: " + tb.strip().split("\n")[-1][:300])
            if not ctx.violations:
                ctx.report("correspondence-broken",
                           {"what": "correspondence %s could not be completed: %s" % (ctx.pid, tb[-3000:])}, nfi=True)
    # 4. a broken proof obligation with no failing input found
    if proof_broken and not any(k == "property-fails" for k, _, _, _ in ctx.violations):
        ctx.report("proof-broken", {"what": "proof obligations of %s no longer check" % ctx.pid,
                                    "failures": proof["failures"]}, nfi=True)
    return finish(ctx, proof, meta.get("level", "proof"))


def replay(plugin, path):
    meta = plugin.META
    r = json.load(open(path))
    ctx = Ctx(meta, "quick", 0)
    if meta.get("driver"):
        gen_coqproject()
        sh(["make", "-j%d" % NCPU] + list(meta.get("coq_targets", [])), cwd=COQ, timeout=1500)
        ctx.model_bin = build_driver(meta["driver"])
    if meta.get("harness"):
        ctx.impl_bin, _ = build_harness(meta["harness"], features=meta.get("features"))
    if hasattr(plugin, "replay"):
        return plugin.replay(ctx, r)
    if "case" not in r:
        print(json.dumps(r, indent=1))
        return 0
    st = None
    for s in plugin.streams(ctx):
        if s.name == r.get("stream"):
            st = s
    if st is None:
        print("stream %s not found" % r.get("stream"))
        return 2
    f, i, m = ctx.fails_property(st, r["case"])
    print("case : %s\nimpl : %s\nmodel: %s\nproperty predicate on implementation trace: %s" % (
        r["case"], i, m, "FALSE (violation reproduced)" if f else "true"))
    return 1 if f else 0
