//! Correspondence harness for actix-tls (C18, C19).
//! One case per stdin line, one trace per stdout line; same text format as ocaml/tls/driver.ml.
use std::io::{self, BufRead, Write};

mod c18;
mod c19;
mod util;

fn main() {
    let mode = std::env::args().nth(1).expect("mode");
    util::install_provider();
    // panics of the code under test are part of the trace (PANIC); keep stderr quiet
    if std::env::var_os("H_TLS_VERBOSE").is_none() {
        std::panic::set_hook(Box::new(|_| {}));
    }
    let stdin = io::stdin();
    let stdout = io::stdout();
    let mut out = io::BufWriter::new(stdout.lock());
    let rt = tokio::runtime::Builder::new_current_thread().enable_all().build().unwrap();
    if mode == "idents" {
        // the certificate table, so that the plugin can check that its reference table is the same
        for id in &util::make_pki().idents {
            println!("{}|{}", id.sans.join(","), id.trusted as u8);
        }
        return;
    }
    let pki = match mode.as_str() {
        "c19tls" | "c19reuse" | "c18" | "c18e2e" => Some(util::make_pki()),
        _ => None,
    };
    for line in stdin.lock().lines() {
        let line = line.unwrap();
        let r = std::panic::catch_unwind(std::panic::AssertUnwindSafe(|| match mode.as_str() {
            "c19host" => c19::c19host(&line),
            "c19uri" => c19::c19uri(&line),
            "c19info" => c19::c19info(&line),
            "c19conn" => rt.block_on(c19::c19conn(&line)),
            "c19tls" => rt.block_on(c19::c19tls(&line, pki.as_ref().unwrap())),
            "c19reuse" => rt.block_on(c19::c19reuse(&line, pki.as_ref().unwrap())),
            "c18" => c18::c18(&line, pki.as_ref().unwrap()),
            "c18e2e" => c18::c18e2e(&line, pki.as_ref().unwrap()),
            m => panic!("unknown mode {m}"),
        }))
        .unwrap_or_else(|_| "PANIC".to_string());
        writeln!(out, "{}", r).unwrap();
        out.flush().unwrap();
    }
}
