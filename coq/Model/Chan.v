(* Model/Chan.v — executable model of local-channel/src/mpsc.rs (unbounded local mpsc channel)
   and the observable-trace predicates of property C16.
   No proofs here (Proofs/ChanFacts.v).  LocalWaker comes from Model/Counter.v.

   `Shared { buffer, blocked_recv, has_receiver }` is the RefCell'd struct; the Rc strong
   count is the number of live handles (senders + receiver), which the script layer tracks
   in a handle table.  Messages are Z.
   Models the tree after the repair of defect D5 (`fix:` commit 0de8a5f: close() wakes the
   receiver, poll_next ends the stream once closed); the pinned behaviour and its refutation
   are kept in Proofs/ChanPinned.v. *)
From Coq Require Export ZArith.
From AN Require Export Model.Counter.

Record shared := mkShared { buffer : list Z; blocked_recv : local_waker; has_receiver : bool }.

(* channel() *)
Definition shared_new : shared := mkShared [] lw_new true.

(* Sender::send *)
Definition sender_send (s : shared) (v : Z) : shared * bool * list waker :=
  if negb (has_receiver s) then (s, false, [])
  else let '(lw, ws) := lw_wake (blocked_recv s) in
       (mkShared (buffer s ++ [v]) lw (has_receiver s), true, ws).

(* Sender::close: `shared.has_receiver = false; shared.blocked_recv.wake()` *)
Definition sender_close (s : shared) : shared * list waker :=
  let '(lw, ws) := lw_wake (blocked_recv s) in (mkShared (buffer s) lw false, ws).

(* Drop for Sender; [strong] = Rc::strong_count before the handle goes away *)
Definition sender_drop (s : shared) (strong : nat) : shared * list waker :=
  if has_receiver s && Nat.eqb strong 2 then
    let '(lw, ws) := lw_wake (blocked_recv s) in (mkShared (buffer s) lw (has_receiver s), ws)
  else (s, []).

Inductive pollres := Pending | Item (v : Z) | Finished.   (* Pending | Ready(Some v) | Ready(None) *)

(* Stream::poll_next for Receiver; [strong] = Rc::strong_count.
   `if Rc::strong_count(..) == 1 || !shared.has_receiver { return Ready(buffer.pop_front()) }` *)
Definition receiver_poll_next (s : shared) (strong : nat) (w : waker) : shared * pollres :=
  if Nat.eqb strong 1 || negb (has_receiver s) then
    match buffer s with
    | v :: b => (mkShared b (blocked_recv s) (has_receiver s), Item v)
    | [] => (s, Finished)
    end
  else
    match buffer s with
    | v :: b => (mkShared b (blocked_recv s) (has_receiver s), Item v)
    | [] => (mkShared [] (fst (lw_register (blocked_recv s) w)) (has_receiver s), Pending)
    end.

(* Drop for Receiver *)
Definition receiver_drop (s : shared) : shared := mkShared [] (blocked_recv s) false.

(* ---- scripts ---- *)
Inductive chan_op :=
| Send (i : nat) (v : Z)
| CloneSender (i : nat)
| DropSender (i : nat)
| Close (i : nat)
| PollRecv (w : waker)
| SenderFromReceiver
| DropReceiver.

Inductive chan_ret := RUnit | RInvalid | RSent (ok : bool) | RPoll (r : pollres).
(* per op: return value and the wakers woken during the op *)
Record chan_obs := Obs { o_ret : chan_ret; o_wakes : list waker }.

(* handle table: sender handles by number (creation order) and the receiver handle *)
Record handles := mkHandles { hs : list bool; hr : bool }.

Definition h_init : handles := mkHandles [true] true.

Definition valid (h : handles) (o : chan_op) : bool :=
  match o with
  | Send i _ | CloneSender i | DropSender i | Close i => alive (hs h) i
  | PollRecv _ | SenderFromReceiver | DropReceiver => hr h
  end.

(* effect of a VALID op on the handle table *)
Definition h_step (h : handles) (o : chan_op) : handles :=
  match o with
  | CloneSender _ | SenderFromReceiver => mkHandles (hs h ++ [true]) (hr h)
  | DropSender i => mkHandles (kill i (hs h)) (hr h)
  | DropReceiver => mkHandles (hs h) false
  | _ => h
  end.

Definition nsenders (h : handles) : nat := live (hs h).
Definition strong_count (h : handles) : nat := (nsenders h + if hr h then 1 else 0)%nat.

Record chan := mkChan { sh : shared; hd : handles }.

Definition chan_init : chan := mkChan shared_new h_init.

Definition chan_step (c : chan) (o : chan_op) : chan * chan_obs :=
  if valid (hd c) o then
    let h' := h_step (hd c) o in
    match o with
    | Send _ v => let '(s, ok, ws) := sender_send (sh c) v in (mkChan s h', Obs (RSent ok) ws)
    | CloneSender _ => (mkChan (sh c) h', Obs RUnit [])
    | DropSender _ =>
        let '(s, ws) := sender_drop (sh c) (strong_count (hd c)) in (mkChan s h', Obs RUnit ws)
    | Close _ => let '(s, ws) := sender_close (sh c) in (mkChan s h', Obs RUnit ws)
    | PollRecv w =>
        let '(s, r) := receiver_poll_next (sh c) (strong_count (hd c)) w in
        (mkChan s h', Obs (RPoll r) [])
    | SenderFromReceiver => (mkChan (sh c) h', Obs RUnit [])
    | DropReceiver => (mkChan (receiver_drop (sh c)) h', Obs RUnit [])
    end
  else (c, Obs RInvalid []).

Fixpoint chan_run_from (c : chan) (s : list chan_op) : list chan_obs :=
  match s with
  | [] => []
  | o :: s' => let '(c', ob) := chan_step c o in ob :: chan_run_from c' s'
  end.

Definition chan_run (s : list chan_op) : list chan_obs := chan_run_from chan_init s.

(* ==================================================================================== *)
(* Property C16 as predicates over (script, observed trace): they see the script and the *)
(* observations only.  Run as monitors on the traces of the real code; proved to hold on *)
(* every model run.                                                                      *)
(* ==================================================================================== *)

(* Generic checker: the handle table is tracked from the script alone; an op that names a
   dead handle must be reported invalid and is otherwise ignored; a valid op is judged by
   [f], which sees the handle table BEFORE the op. *)
Fixpoint chan_check {A : Type} (f : handles -> A -> chan_op -> chan_obs -> option A)
         (h : handles) (a : A) (s : list chan_op) (tr : list chan_obs) : bool :=
  match s, tr with
  | [], [] => true
  | o :: s', ob :: tr' =>
      if valid h o then
        match f h a o ob with
        | Some a' => chan_check f (h_step h o) a' s' tr'
        | None => false
        end
      else match o_ret ob with RInvalid => chan_check f h a s' tr' | _ => false end
  | _, _ => false
  end.

(* C16 (a) FIFO, exactly once: the reference queue.  A successful send appends; a poll
   that yields an item yields the head and removes it; a poll that yields no item
   (Pending or end of stream) is only allowed when the queue is empty; dropping the
   receiver discards what is queued.  Return values have the right shape. *)
Definition fifo_f (_ : handles) (q : list Z) (o : chan_op) (ob : chan_obs) : option (list Z) :=
  match o, o_ret ob with
  | Send _ v, RSent true => Some (q ++ [v])
  | Send _ _, RSent false => Some q
  | PollRecv _, RPoll (Item v) =>
      match q with x :: q' => if Z.eqb x v then Some q' else None | [] => None end
  | PollRecv _, RPoll _ => match q with [] => Some [] | _ => None end
  | DropReceiver, RUnit => Some []
  | (CloneSender _ | DropSender _ | Close _ | SenderFromReceiver), RUnit => Some q
  | _, _ => None
  end.

Definition fifo_ok (s : list chan_op) (tr : list chan_obs) : bool := chan_check fifo_f h_init [] s tr.

(* C16 (b) send fails exactly when the receiver has been dropped or the channel closed.
   State = "a Close or DropReceiver has been executed". *)
Definition senderr_f (_ : handles) (closed : bool) (o : chan_op) (ob : chan_obs) : option bool :=
  match o with
  | Send _ _ => match o_ret ob with
                | RSent ok => if Bool.eqb ok (negb closed) then Some closed else None
                | _ => None
                end
  | Close _ | DropReceiver => Some true
  | _ => Some closed
  end.

Definition send_err_ok (s : list chan_op) (tr : list chan_obs) : bool :=
  chan_check senderr_f h_init false s tr.

(* C16 (c) wake obligation.  State = the waker of the receiver's last poll if that poll
   returned Pending and the waker has not been woken since.  The next successful send, the
   drop of the last sender and close must wake it.  (Any wake of it discharges it; a poll
   that returns Ready, and the drop of the receiver, end the obligation.) *)
Definition wake_f (h : handles) (parked : option waker) (o : chan_op) (ob : chan_obs)
  : option (option waker) :=
  let must :=   (* the parked receiver must be woken by this op *)
    match o, o_ret ob with
    | Send _ _, RSent true => true
    | Close _, _ => true
    | DropSender _, _ => Nat.eqb (nsenders h) 1
    | _, _ => false
    end in
  match o, o_ret ob with
  | PollRecv w, RPoll Pending => Some (Some w)
  | PollRecv _, _ => Some None
  | DropReceiver, _ => Some None
  | _, _ =>
      match parked with
      | Some w => if mem_waker w (o_wakes ob) then Some None
                  else if must then None else Some parked
      | None => Some None
      end
  end.

Definition wake_ok (s : list chan_op) (tr : list chan_obs) : bool := chan_check wake_f h_init None s tr.

(* C16 (c') exactly once / nothing else is woken.  State = waker handed over by the most
   recent Pending poll and not woken since.  Only a send, a sender drop or close may wake,
   and then exactly that waker, once. *)
Definition wake_once_f (_ : handles) (reg : option waker) (o : chan_op) (ob : chan_obs)
  : option (option waker) :=
  match o, o_ret ob with
  | PollRecv w, RPoll Pending => if wakers_eqb (o_wakes ob) [] then Some (Some w) else None
  | (Send _ _ | DropSender _ | Close _), _ =>
      if wakers_eqb (o_wakes ob) [] then Some reg
      else match reg with
           | Some w => if wakers_eqb (o_wakes ob) [w] then Some None else None
           | None => None
           end
  | _, _ => if wakers_eqb (o_wakes ob) [] then Some reg else None
  end.

Definition wake_once_ok (s : list chan_op) (tr : list chan_obs) : bool :=
  chan_check wake_once_f h_init None s tr.

(* C16 (d) clean closure.  State = "Close or DropReceiver executed".  While the channel is
   closed or has no sender, a poll never returns Pending (with fifo_ok: it drains the queue
   and then yields end of stream); and end of stream is yielded only then. *)
Definition end_f (h : handles) (closed : bool) (o : chan_op) (ob : chan_obs) : option bool :=
  match o with
  | PollRecv _ =>
      let over := closed || Nat.eqb (nsenders h) 0 in
      match o_ret ob with
      | RPoll Pending => if over then None else Some closed
      | RPoll Finished => if over then Some closed else None
      | RPoll (Item _) => Some closed
      | _ => None
      end
  | Close _ | DropReceiver => Some true
  | _ => Some closed
  end.

Definition end_ok (s : list chan_op) (tr : list chan_obs) : bool := chan_check end_f h_init false s tr.

Definition C16_ok (s : list chan_op) (tr : list chan_obs) : bool :=
  fifo_ok s tr && send_err_ok s tr && wake_ok s tr && wake_once_ok s tr && end_ok s tr.

(* which clause fails first (for diagnostics in replay files): 0 = none *)
Definition C16_failing_clause (s : list chan_op) (tr : list chan_obs) : nat :=
  if negb (fifo_ok s tr) then 1 else if negb (send_err_ok s tr) then 2
  else if negb (wake_ok s tr) then 3 else if negb (wake_once_ok s tr) then 4
  else if negb (end_ok s tr) then 5 else 0.

(* ---- what FIFO / exactly-once means in terms of the trace alone (used in C16_fifo_prefix,
   C16_fifo_complete): the values of the successful sends, and the values the polls yielded ---- *)
Fixpoint sent_ok (s : list chan_op) (tr : list chan_obs) : list Z :=
  match s, tr with
  | o :: s', ob :: tr' =>
      match o, o_ret ob with
      | Send _ v, RSent true => v :: sent_ok s' tr'
      | _, _ => sent_ok s' tr'
      end
  | _, _ => []
  end.

Fixpoint received (s : list chan_op) (tr : list chan_obs) : list Z :=
  match s, tr with
  | o :: s', ob :: tr' =>
      match o, o_ret ob with
      | PollRecv _, RPoll (Item v) => v :: received s' tr'
      | _, _ => received s' tr'
      end
  | _, _ => []
  end.

(* was the receiver handle dropped by the script? *)
Definition drops_receiver (s : list chan_op) : bool :=
  existsb (fun o => match o with DropReceiver => true | _ => false end) s.
