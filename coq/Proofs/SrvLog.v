(* Proofs/SrvLog.v — what the dispatch log of a fault-free run looks like (C04): skips and dispatches walk
   round the workers in cyclic order; a window without skips hits pairwise distinct workers. *)
From Coq Require Import List Arith ZArith NArith Bool Lia.
From AN Require Import Model.Srv Proofs.SrvInv.
Import ListNotations.

Definition is_skip (e : event) : bool := match e with EvSkip _ _ _ => true | _ => false end.

(* chronological dispatch targets of a newest-first segment of the log *)
Fixpoint dtargets (seg : list event) : list nat :=
  match seg with
  | [] => []
  | e :: s => dtargets s ++ (match e with EvDispatch _ _ g _ _ => [g] | _ => [] end)
  end.

Lemma tr_next_lt W tr nx : 0 < W -> tr_next W tr = Some nx -> nx < W.
Proof.
  intros HW. revert nx; induction tr as [|e r IH]; cbn [tr_next]; intros nx H.
  - injection H as <-. exact HW.
  - destruct (tr_next W r) as [cur|]; [|discriminate].
    destruct e; try (injection H as <-; now apply IH);
      (destruct (Nat.eqb _ cur); [|discriminate]; injection H as <-; unfold succ_mod_w; apply Nat.mod_upper_bound; lia).
Qed.

Lemma tr_next_suffix W seg rest nx : tr_next W (seg ++ rest) = Some nx -> exists cur, tr_next W rest = Some cur.
Proof.
  revert nx; induction seg as [|e s IH]; cbn [app tr_next]; intros nx H; [eauto|].
  destruct (tr_next W (s ++ rest)) as [c|] eqn:E; [|discriminate]. eapply IH. reflexivity.
Qed.

Lemma segment_run W : 0 < W -> forall seg rest cur nx,
  tr_next W rest = Some cur -> tr_next W (seg ++ rest) = Some nx -> forallb (fun e => negb (is_skip e)) seg = true ->
  dtargets seg = map (fun i => (cur + i) mod W) (seq 0 (length (dtargets seg))) /\
  nx = (cur + length (dtargets seg)) mod W.
Proof.
  intros HW. induction seg as [|e s IH]; intros rest cur nx Hr Hs Hns; cbn [app tr_next dtargets] in *.
  - rewrite Hr in Hs. injection Hs as <-. cbn. split; [reflexivity|].
    rewrite Nat.add_0_r. symmetry. apply Nat.mod_small. eapply tr_next_lt; eassumption.
  - cbn [forallb] in Hns. apply andb_true_iff in Hns as [He Hns].
    destruct (tr_next W (s ++ rest)) as [c'|] eqn:E; [|discriminate].
    destruct (IH rest cur c' Hr E Hns) as [Ht Hc'].
    destruct e; try discriminate He;
      try (injection Hs as <-; rewrite app_nil_r; split; assumption).
    destruct (Nat.eqb_spec g c') as [->|]; [|discriminate]. injection Hs as <-.
    rewrite app_length. cbn [length]. rewrite Nat.add_1_r, seq_S, map_app. cbn [map Nat.add].
    split.
    + rewrite <- Ht. f_equal. f_equal. exact Hc'.
    + unfold succ_mod_w. rewrite Hc'. rewrite Nat.add_mod_idemp_l by lia. f_equal. lia.
Qed.

Lemma mod_inj W a b : 0 < W -> a <= b -> b - a < W -> a mod W = b mod W -> a = b.
Proof.
  intros HW Hab Hd He.
  pose proof (Nat.div_mod_eq a W). pose proof (Nat.div_mod_eq b W).
  assert (Hq : a / W <= b / W) by (apply Nat.div_le_mono; lia).
  assert (b - a = W * (b / W - a / W)) by nia.
  destruct (Nat.eq_dec (b / W - a / W) 0) as [E|E]; [nia|].
  assert (W * 1 <= W * (b / W - a / W)) by (apply Nat.mul_le_mono_l; lia). lia.
Qed.

Lemma cyclic_run_nodup W cur k : 0 < W -> k <= W -> NoDup (map (fun i => (cur + i) mod W) (seq 0 k)).
Proof.
  intros HW Hk. apply NoDup_nth with (d := 0). rewrite map_length, seq_length. intros i j Hi Hj Hn.
  rewrite !(nth_indep _ 0 ((cur + 0) mod W)) in Hn by (rewrite map_length, seq_length; assumption).
  rewrite !(map_nth (fun i => (cur + i) mod W)) in Hn. rewrite !seq_nth in Hn by assumption. cbn [Nat.add] in Hn.
  destruct (Nat.le_ge_cases i j).
  - assert (cur + i = cur + j) by (apply (mod_inj W); lia). lia.
  - assert (cur + j = cur + i) by (apply (mod_inj W); lia). lia.
Qed.

(* any window of the log without skips: at most W dispatches hit pairwise distinct workers, in cyclic order *)
Lemma window_distinct W tr nx post seg pre :
  0 < W -> tr_next W tr = Some nx -> tr = post ++ seg ++ pre ->
  forallb (fun e => negb (is_skip e)) seg = true -> length (dtargets seg) <= W ->
  NoDup (dtargets seg) /\
  exists cur, cur < W /\ dtargets seg = map (fun i => (cur + i) mod W) (seq 0 (length (dtargets seg))).
Proof.
  intros HW Ht -> Hns Hlen.
  destruct (tr_next_suffix W post (seg ++ pre) nx Ht) as [c1 H1].
  destruct (tr_next_suffix W seg pre c1 H1) as [cur Hc].
  destruct (segment_run W HW seg pre cur c1 Hc H1 Hns) as [Hd _].
  split; [rewrite Hd; now apply cyclic_run_nodup|].
  exists cur. split; [eapply tr_next_lt; eassumption|exact Hd].
Qed.
