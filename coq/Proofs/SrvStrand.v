(* Proofs/SrvStrand.v — no connection is stranded in a backlog, for EVERY script: worker deaths and replacements at any
   point (also inside the send/inc gap), late notices, commands, injected errors.  Generalises Proofs/SrvPauseB.v
   (fault-free runs, built on the counter invariant Inv) by carrying the coverage invariant [BInv] (SrvPauseB.v)
   relationally through the accept-thread functions, in the style of SrvPause.v: no fuel or termination argument is
   needed because every clause is guarded by [err st' = None] (Proofs/SrvFault.v shows err = None for well-formed scripts).
   Still needed: the environment assumption that accept() never reports WouldBlock while connections are queued
   (scripts without [Inject _ EWouldBlock]). *)
From Coq Require Import List Arith ZArith NArith Bool Lia.
From AN Require Import Model.Srv Proofs.AvailFacts Proofs.ListFacts Proofs.SrvInv Proofs.SrvPause Proofs.SrvPauseB Proofs.SrvFault.
Import ListNotations.

(* every listener outside P has a recorded reason to be looked at again *)
Definition Cov (e : bool) (P : nat -> Prop) (st : state) : Prop :=
  forall t l, ~ P t -> nth_error (lsts st) t = Some l -> CovG e l.

Lemma Cov_lsts e P st st' : lsts st' = lsts st -> Cov e P st -> Cov e P st'.
Proof. unfold Cov. intros ->. auto. Qed.

Lemma WBl_lsts st st' : lsts st' = lsts st -> WBl st -> WBl st'.
Proof. unfold WBl. intros ->. auto. Qed.

Lemma Cov_weaken e (P Q : nat -> Prop) st : (forall t, ~ Q t -> ~ P t) -> Cov e P st -> Cov e Q st.
Proof. intros H HC t l HQ. apply HC. now apply H. Qed.

Lemma fold_lost_lsts l : forall s, lsts (fold_left (fun s c => emit s (EvLost (c_id c))) l s) = lsts s.
Proof. induction l as [|x l IH]; intros s; cbn [fold_left]; [reflexivity|]. now rewrite IH. Qed.

Section S.
Variable L : Z.

(* ---------- environment steps, faults included ---------- *)
Lemma env_step_cov_all P st o :
  nwb_eop o = true -> WBl st ->
  WBl (env_step L st o) /\
  ((forall l, In l (lsts st) -> l_reg l = true \/ l_to l <> None) -> Cov true P st -> Cov true P (env_step L st o)).
Proof.
  intros Hwb HW. destruct (nf_eop o) eqn:Hnf.
  - destruct (env_step_cov L P st o Hnf Hwb HW) as [A B]. split; [exact A|]. intros Hreg HC. exact (B Hreg HC).
  - destruct o; try discriminate; cbn [env_step].
    + (* Kill *)
      assert (E : lsts (match nth_error (ws st) g with
                        | Some w => if w_open w
                                    then fold_left (fun s c => emit s (EvLost (c_id c))) (w_queue w)
                                           (emit (upd_worker st g (set_w_open (set_w_queue w []) false)) (EvKilled g))
                                    else st
                        | None => st end) = lsts st).
      { destruct (nth_error (ws st) g) as [w|]; [|reflexivity]. destruct (w_open w); [|reflexivity].
        rewrite fold_lost_lsts. reflexivity. }
      split; [eapply WBl_lsts; eauto|]. intros _ HC. eapply Cov_lsts; eauto.
    + (* Respawn *)
      split; [exact HW|]. intros _ HC. exact HC.
Qed.

Lemma env_steps_cov_all P os : forall st,
  forallb nwb_eop os = true -> RInv st -> stopped st = false -> paused st = false -> WBl st -> Cov true P st ->
  WBl (env_steps L st os) /\ Cov true P (env_steps L st os).
Proof.
  induction os as [|o os IH]; intros st Hwb HR Hs Hp HW HC; cbn [env_steps fold_left]; [split; assumption|].
  cbn [forallb] in Hwb. apply andb_true_iff in Hwb as [Wo Wos].
  destruct (env_step_cov_all P st o Wo HW) as [HW1 HC1].
  destruct (env_step_r L st o HR) as [HR1 (F1 & F2 & _)].
  apply IH; [exact Wos|exact HR1|congruence|congruence|exact HW1|]. apply HC1; [|exact HC].
  intros l Hin. exact (RInv_reg_or_to st l HR Hs Hp Hin).
Qed.

Lemma env_steps_covE e P os st :
  (e = false -> os = []) -> forallb nwb_eop os = true -> RInv st -> stopped st = false -> paused st = false ->
  WBl st -> Cov e P st -> WBl (env_steps L st os) /\ Cov e P (env_steps L st os).
Proof.
  intros He. destruct e; [apply env_steps_cov_all|]. rewrite (He eq_refl). cbn. auto.
Qed.

(* ---------- dispatch: send_connection, forced send, accept_one ---------- *)
(* what the callers need to know about ys *)
Definition YOk (e : bool) (ys : ysched) : Prop := nwb_ys ys = true /\ (e = false -> ys = []).

Lemma YOk_tl e ys : YOk e ys -> YOk e (tl ys).
Proof.
  intros [A B]. split; [exact (proj2 (nwb_ys_hd _ A))|]. intros E. now rewrite (B E).
Qed.

Lemma YOk_hd e ys : YOk e ys -> forallb nwb_eop (hd [] ys) = true /\ (e = false -> hd [] ys = []).
Proof.
  intros [A B]. split; [exact (proj1 (nwb_ys_hd _ A))|]. intros E. now rewrite (B E).
Qed.

Lemma stopped_Fr1 st st' : Fr1 st st' -> stopped st' = stopped st.
Proof. intros (_ & A & _). exact A. Qed.

Lemma send_connection_c e P st c ys st' ys' r :
  RInv st -> WBl st -> YOk e ys -> stopped st = false -> paused st = false -> Cov e P st ->
  send_connection L st c ys = (st', ys', r) ->
  WBl st' /\ YOk e ys' /\ Cov e P st'.
Proof.
  intros HR HW HY Hs Hp HC. unfold send_connection.
  destruct (nth_error (handles st) (next st)) as [g|];
    [|intros E; injection E as <- <- <-; repeat split; auto; apply HY].
  destruct (nth_error (ws st) g) as [w|];
    [|intros E; injection E as <- <- <-; repeat split; auto; apply HY].
  destruct (w_open w).
  - set (st1 := emit (upd_worker st g (set_w_queue w (w_queue w ++ [c]))) _).
    assert (HR1 : RInv st1) by (apply RInv_emit_dispatch; [exact Hp|now apply RInv_upd_worker]).
    destruct (YOk_hd _ _ HY) as [Hhd Hhe].
    destruct (env_steps_covE e P (hd [] ys) st1 Hhe Hhd HR1 Hs Hp HW HC) as [HW2 HC2].
    set (st2 := env_steps L st1 (hd [] ys)) in *.
    destruct (nth_error (ws st2) g) as [w2|];
      [|intros E; injection E as <- <- <-; split; [exact HW2|]; split; [now apply YOk_tl|exact HC2]].
    intros E; injection E as <- <- <-.
    split; [|split; [now apply YOk_tl|]].
    + destruct (Z.eqb (w_cnt w2) L); eapply WBl_lsts; [| exact HW2 | | exact HW2]; unfold do_set_next, av_set;
        repeat match goal with |- context [match ?x with _ => _ end] => destruct x end; reflexivity.
    + destruct (Z.eqb (w_cnt w2) L); eapply Cov_lsts; [| exact HC2 | | exact HC2]; unfold do_set_next, av_set;
        repeat match goal with |- context [match ?x with _ => _ end] => destruct x end; reflexivity.
  - set (st3 := av_set (emit (set_handles st (swap_remove (next st) (handles st))) (EvFaulted (w_idx w))) (w_idx w) false).
    assert (E3 : lsts st3 = lsts st).
    { unfold st3, av_set. destruct (set _ _ _); reflexivity. }
    destruct (handles st3).
    + intros E; injection E as <- <- <-. split; [eapply WBl_lsts; [|exact HW]; exact E3|].
      split; [exact HY|]. eapply Cov_lsts; [|exact HC]. exact E3.
    + match goal with |- context [if ?b then _ else _] => destruct b end; intros E; injection E as <- <- <-;
        (split; [eapply WBl_lsts; [|exact HW]; exact E3|]; split; [exact HY|]; eapply Cov_lsts; [|exact HC]; exact E3).
Qed.

Lemma forced_send_c e P : forall fuel st c ys st' ys',
  RInv st -> WBl st -> YOk e ys -> stopped st = false -> paused st = false -> Cov e P st ->
  forced_send L fuel st c ys = (st', ys') ->
  WBl st' /\ YOk e ys' /\ Cov e P st'.
Proof.
  induction fuel as [|f IH]; intros st c ys st' ys' HR HW HY Hs Hp HC; cbn [forced_send].
  - intros E; injection E as <- <-. repeat split; auto; apply HY.
  - destruct (err st); [intros E; injection E as <- <-; repeat split; auto; apply HY|].
    destruct (send_connection L st c ys) as [[s1 y1] r] eqn:Es.
    destruct (send_connection_r L _ _ _ _ _ _ HR Hp Es) as [HR1 F1].
    destruct (send_connection_c e P _ _ _ _ _ _ HR HW HY Hs Hp HC Es) as (HW1 & HY1 & HC1).
    destruct r as [|c'].
    + intros E; injection E as <- <-. auto.
    + intros E. pose proof (paused_Fr1 _ _ F1) as Hp1. rewrite Hp in Hp1.
      pose proof (stopped_Fr1 _ _ F1) as Hs1. rewrite Hs in Hs1.
      exact (IH _ _ _ _ _ HR1 HW1 HY1 Hs1 Hp1 HC1 E).
Qed.

Lemma accept_one_c e P : forall fuel st c ys st' ys',
  RInv st -> WBl st -> YOk e ys -> stopped st = false -> paused st = false -> Cov e P st ->
  accept_one L fuel st c ys = (st', ys') ->
  WBl st' /\ YOk e ys' /\ Cov e P st'.
Proof.
  induction fuel as [|f IH]; intros st c ys st' ys' HR HW HY Hs Hp HC; cbn [accept_one].
  - intros E; injection E as <- <-. repeat split; auto; apply HY.
  - destruct (err st); [intros E; injection E as <- <-; repeat split; auto; apply HY|].
    destruct (nth_error (handles st) (next st)) as [g|];
      [|intros E; injection E as <- <-; repeat split; auto; apply HY].
    destruct (nth_error (ws st) g) as [w|];
      [|intros E; injection E as <- <-; repeat split; auto; apply HY].
    destruct (av_get st (w_idx w)) as [st0 b] eqn:Eg.
    assert (H0 : RInv st0 /\ Fr1 st st0 /\ lsts st0 = lsts st).
    { unfold av_get in Eg. destruct (get (av st) (w_idx w)); injection Eg as <- <-;
        (split; [|split; [try apply Fr1_refl; apply Fr1_set_err|reflexivity]]); auto using RInv_set_err. }
    destruct H0 as (HR0 & F0 & E0). pose proof (paused_Fr1 _ _ F0) as Hp0. rewrite Hp in Hp0.
    pose proof (stopped_Fr1 _ _ F0) as Hs0. rewrite Hs in Hs0.
    assert (HW0 : WBl st0) by (eapply WBl_lsts; eauto).
    assert (HC0 : Cov e P st0) by (eapply Cov_lsts; eauto).
    destruct b.
    + destruct (send_connection L st0 c ys) as [[s1 y1] r] eqn:Es.
      destruct (send_connection_r L _ _ _ _ _ _ HR0 Hp0 Es) as [HR1 F1].
      destruct (send_connection_c e P _ _ _ _ _ _ HR0 HW0 HY Hs0 Hp0 HC0 Es) as (HW1 & HY1 & HC1).
      destruct r as [|c'].
      * intros E; injection E as <- <-. auto.
      * intros E. pose proof (paused_Fr1 _ _ F1) as Hp1. rewrite Hp0 in Hp1.
        pose proof (stopped_Fr1 _ _ F1) as Hs1. rewrite Hs0 in Hs1.
        exact (IH _ _ _ _ _ HR1 HW1 HY1 Hs1 Hp1 HC1 E).
    + set (st1 := do_set_next (av_set (emit st0 _) (w_idx w) false)).
      assert (HR1 : RInv st1) by (apply RInv_do_set_next, RInv_av_set, RInv_emit_quiet; [reflexivity|exact HR0]).
      assert (F1 : Fr1 st0 st1).
      { eapply Fr1_trans; [apply Fr1_emit|]. eapply Fr1_trans; [apply Fr1_av_set|apply Fr1_do_set_next]. }
      assert (E1 : lsts st1 = lsts st0).
      { unfold st1, do_set_next, av_set.
        repeat match goal with |- context [match ?x with _ => _ end] => destruct x end; reflexivity. }
      pose proof (paused_Fr1 _ _ F1) as Hp1. rewrite Hp0 in Hp1.
      pose proof (stopped_Fr1 _ _ F1) as Hs1. rewrite Hs0 in Hs1.
      assert (HW1 : WBl st1) by (eapply WBl_lsts; eauto).
      assert (HC1 : Cov e P st1) by (eapply Cov_lsts; eauto).
      destruct (available (av st1)).
      * intros E. exact (IH _ _ _ _ _ HR1 HW1 HY Hs1 Hp1 HC1 E).
      * intros E. exact (forced_send_c e P _ _ _ _ _ _ HR1 HW1 HY Hs1 Hp1 HC1 E).
Qed.


(* ---------- Accept::accept ---------- *)
Definition CovT (e : bool) (st : state) (tok : nat) : Prop :=
  err st = None -> available (av st) = true -> forall l, nth_error (lsts st) tok = Some l -> CovG e l.

Lemma accept_loop_c e P : forall fuel st tok ys st' ys',
  RInv st -> WBl st -> YOk e ys -> stopped st = false -> paused st = false ->
  Cov e (fun t => t = tok \/ P t) st ->
  accept_loop L fuel st tok ys = (st', ys') ->
  WBl st' /\ YOk e ys' /\ Cov e (fun t => t = tok \/ P t) st' /\ CovT e st' tok.
Proof.
  induction fuel as [|f IH]; intros st tok ys st' ys' HR HW HY Hs Hp HC; cbn [accept_loop].
  - intros E; injection E as <- <-. repeat split; auto; try apply HY. intros He. cbn in He. destruct (err st); discriminate.
  - destruct (err st) eqn:Herr.
    { intros E; injection E as <- <-. repeat split; auto; try apply HY. intros He. congruence. }
    destruct (available (av st)) eqn:Hav.
    2:{ intros E; injection E as <- <-. repeat split; auto; try apply HY. intros _ Ha. congruence. }
    destruct (nth_error (lsts st) tok) as [l|] eqn:El.
    2:{ intros E; injection E as <- <-. repeat split; auto; try apply HY. intros He. cbn in He. rewrite Herr in He. discriminate. }
    pose proof (NoWB_nth _ _ _ HW El) as Hnowb.
    assert (Hlt : tok < length (lsts st)) by (eapply nth_error_Some_lt; eauto).
    destruct (l_inject l) as [|k rest] eqn:Hinj.
    + destruct (l_backlog l) as [|c rest] eqn:Hback.
      * intros E; injection E as <- <-. repeat split; auto; try apply HY.
        intros _ _ l0 Hl0. rewrite El in Hl0. injection Hl0 as <-. now left.
      * set (l1 := {| l_uds := l_uds l; l_reg := l_reg l; l_edge := l_edge l; l_to := l_to l; l_backlog := rest;
                      l_inject := []; l_linked := l_linked l |}).
        set (st1 := upd_lst st tok l1).
        assert (HR1 : RInv st1) by (eapply RInv_upd_lst_key; eauto; reflexivity).
        assert (HW1 : WBl st1) by (apply Forall_replace_nth; [exact HW|]; unfold NoWB; cbn; auto).
        assert (HC1 : Cov e (fun t => t = tok \/ P t) st1).
        { intros t l0 HnP. unfold st1. cbn [lsts upd_lst set_lsts].
          rewrite nth_error_replace_nth_other by (intros ->; tauto). now apply HC. }
        destruct (accept_one L (accept_one_fuel st1) st1 _ ys) as [st2 ys2] eqn:Ea.
        destruct (accept_one_r L _ _ _ _ _ _ HR1 Hp Ea) as [HR2 F2].
        destruct (accept_one_c e _ _ _ _ _ _ _ HR1 HW1 HY Hs Hp HC1 Ea) as (HW2 & HY2 & HC2).
        pose proof (paused_Fr1 _ _ F2) as Hp2. change (paused st1) with (paused st) in Hp2. rewrite Hp in Hp2.
        pose proof (stopped_Fr1 _ _ F2) as Hs2. change (stopped st1) with (stopped st) in Hs2. rewrite Hs in Hs2.
        intros E. exact (IH _ _ _ _ _ HR2 HW2 HY2 Hs2 Hp2 HC2 E).
    + set (l1 := {| l_uds := l_uds l; l_reg := l_reg l; l_edge := l_edge l; l_to := l_to l; l_backlog := l_backlog l;
                    l_inject := rest; l_linked := l_linked l |}).
      assert (HW1 : forall l', l_inject l' = rest -> WBl (upd_lst st tok l')).
      { intros l' E'. apply Forall_replace_nth; [exact HW|]. unfold NoWB. rewrite E'. intros Hin. apply Hnowb. now right. }
      assert (HC1 : forall l', Cov e (fun t => t = tok \/ P t) (upd_lst st tok l')).
      { intros l' t l0 HnP. cbn [lsts upd_lst set_lsts]. rewrite nth_error_replace_nth_other by (intros ->; tauto). now apply HC. }
      destruct k.
      * exfalso. apply Hnowb. now left.
      * assert (HR1 : RInv (upd_lst st tok l1)) by (eapply RInv_upd_lst_key; eauto; reflexivity).
        intros E. exact (IH _ _ _ _ _ HR1 (HW1 l1 eq_refl) HY Hs Hp (HC1 l1) E).
      * set (l2 := set_l_to (deregister l1) (Some (now st + 500)%N)).
        destruct (set_timeout_spec (upd_lst st tok l2) 510%N) as (_ & S1 & S2 & S3 & S4 & S5 & S6 & S7 & S8 & S9).
        intros E; injection E as <- <-.
        split; [unfold WBl; rewrite S2; apply (HW1 l2); reflexivity|]. split; [exact HY|]. split.
        -- eapply Cov_lsts; [exact S2|]. apply HC1.
        -- intros _ _ l0. rewrite S2. cbn [lsts upd_lst set_lsts]. rewrite nth_error_replace_nth_same by exact Hlt.
           intros E; injection E as <-. right; right; right. discriminate.
Qed.

Lemma accept_c e P st tok ys st' ys' :
  RInv st -> WBl st -> YOk e ys -> stopped st = false -> paused st = false ->
  Cov e (fun t => t = tok \/ P t) st ->
  accept L st tok ys = (st', ys') ->
  WBl st' /\ YOk e ys' /\ Cov e (fun t => t = tok \/ P t) st' /\ CovT e st' tok.
Proof. intros HR HW HY Hs Hp HC. unfold accept. rewrite Hp. now apply accept_loop_c. Qed.

(* availability can only go away during accept calls: once no worker is flagged, nothing changes any more *)
Lemma accept_idle_any st tok ys :
  paused st = false -> available (av st) = false -> accept L st tok ys = (st, ys) \/ err st <> None \/
  exists b, accept L st tok ys = (set_err st b, ys).
Proof.
  intros Hpa Hav. unfold accept, accept_fuel. rewrite Hpa.
  destruct (nth_error (lsts st) tok); cbn [accept_loop]; destruct (err st) eqn:He; try (right; left; discriminate);
    rewrite Hav; now left.
Qed.

(* accept over a list of tokens: at the end, if some worker is still flagged, every listener of the list is covered *)
Lemma accept_toks_c e : forall toks (P : nat -> Prop) st ys st' ys',
  RInv st -> WBl st -> YOk e ys -> stopped st = false -> paused st = false ->
  (err st = None -> available (av st) = true -> Cov e (fun t => In t toks \/ P t) st) ->
  accept_toks L st toks ys = (st', ys') ->
  WBl st' /\ YOk e ys' /\ (err st' = None -> available (av st') = true -> Cov e P st').
Proof.
  induction toks as [|t r IH]; intros P st ys st' ys' HR HW HY Hs Hp HC; cbn [accept_toks].
  - intros E; injection E as <- <-. split; [exact HW|]. split; [exact HY|]. intros He Ha.
    eapply Cov_weaken; [|exact (HC He Ha)]. intros x Hx [[]|Hp']. contradiction.
  - destruct (accept L st t ys) as [s1 y1] eqn:Ea.
    destruct (accept_r L _ _ _ _ _ HR Ea) as [HR1 F1].
    pose proof (paused_Fr1 _ _ F1) as Hp1. rewrite Hp in Hp1.
    pose proof (stopped_Fr1 _ _ F1) as Hs1. rewrite Hs in Hs1.
    destruct (err st) eqn:Herr.
    { (* already failed: accept returns the state unchanged, and it stays failed *)
      assert (E1 : s1 = st /\ y1 = ys).
      { unfold accept in Ea. rewrite Hp in Ea. unfold accept_fuel in Ea.
        destruct (nth_error (lsts st) t); cbn [accept_loop] in Ea; rewrite Herr in Ea; injection Ea as <- <-; auto. }
      destruct E1 as [-> ->]. intros E.
      apply (IH P st ys st' ys' HR HW HY Hs Hp); [intros He; congruence|exact E]. }
    destruct (available (av st)) eqn:Hav.
    + assert (HC0 : Cov e (fun x => x = t \/ (In x r \/ P x)) st).
      { eapply Cov_weaken; [|exact (HC eq_refl eq_refl)]. intros x Hx [[->|Hin]|Hp']; tauto. }
      destruct (accept_c e _ _ _ _ _ _ HR HW HY Hs Hp HC0 Ea) as (HW1 & HY1 & HC1 & HT1).
      intros E. apply (IH P s1 y1 st' ys' HR1 HW1 HY1 Hs1 Hp1); [|exact E].
      intros He Ha x l Hx Hl. destruct (Nat.eq_dec x t) as [->|Hne]; [exact (HT1 He Ha l Hl)|].
      apply (HC1 x l); [|exact Hl]. intros [->|[Hin|Hp']]; tauto.
    + (* no worker flagged: accept returns at once, nothing changes *)
      assert (E1 : s1 = st /\ y1 = ys).
      { unfold accept in Ea. rewrite Hp in Ea. unfold accept_fuel in Ea.
        destruct (nth_error (lsts st) t); cbn [accept_loop] in Ea; rewrite Herr, Hav in Ea; injection Ea as <- <-; auto. }
      destruct E1 as [-> ->]. intros E.
      apply (IH P st ys st' ys' HR HW HY Hs Hp); [intros _ Ha; congruence|exact E].
Qed.

Lemma accept_all_c e st ys st' ys' :
  RInv st -> WBl st -> YOk e ys -> stopped st = false -> paused st = false ->
  accept_all L st ys = (st', ys') ->
  WBl st' /\ YOk e ys' /\ (err st' = None -> BInv e st').
Proof.
  intros HR HW HY Hs Hp E. unfold accept_all in E.
  assert (H0 : err st = None -> available (av st) = true ->
               Cov e (fun t => In t (seq 0 (length (lsts st))) \/ False) st).
  { intros _ _ t l Hn Hl. exfalso. apply Hn. left. apply in_seq. pose proof (nth_error_Some_lt _ _ _ Hl). lia. }
  destruct (accept_toks_c e _ (fun _ => False) _ _ _ _ HR HW HY Hs Hp H0 E) as (HW' & HY' & HC').
  split; [exact HW'|]. split; [exact HY'|]. intros He _ _ Ha t l Hn Hl. exact (HC' He Ha t l Hn Hl).
Qed.

(* ---------- Accept::handle_waker ---------- *)
(* every interest except an unmatched Resume establishes the coverage from scratch (by accept_all) or makes it vacuous
   (pause, stop) *)
Definition settles (i : interest) : bool := match i with IResume => false | _ => true end.

Lemma handle_waker_c e : forall fuel st ys st' ys',
  RInv st -> WBl st -> YOk e ys -> stopped st = false ->
  (err st = None -> BInv e st \/ existsb settles (wq st) = true) ->
  handle_waker L fuel st ys = (st', ys') ->
  WBl st' /\ YOk e ys' /\ (err st' = None -> BInv e st' /\ (stopped st' = true \/ wq st' = [])).
Proof.
  induction fuel as [|f IH]; intros st ys st' ys' HR HW HY Hs HB; cbn [handle_waker].
  - intros E; injection E as <- <-. split; [exact HW|]. split; [exact HY|]. intros He. cbn in He. destruct (err st); discriminate.
  - destruct (err st) eqn:Herr.
    { intros E; injection E as <- <-. split; [exact HW|]. split; [exact HY|]. intros He; congruence. }
    specialize (HB eq_refl).
    destruct (wq st) as [|i rest] eqn:Hq.
    { intros E; injection E as <- <-. split; [exact HW|]. split; [exact HY|]. intros _.
      destruct HB as [HB|HB]; [|discriminate]. split; [exact HB|]. now right. }
    set (st0 := set_wq st rest (wpend st)).
    assert (HR0 : RInv st0) by (eapply RInv_core; [|exact HR]; reflexivity).
    assert (HW0 : WBl st0) by exact HW.
    (* after an interest that settles, the rest needs no hypothesis *)
    assert (Hgo : forall s y, RInv s -> WBl s -> YOk e y -> stopped s = false -> (err s = None -> BInv e s) ->
              handle_waker L f s y = (st', ys') ->
              WBl st' /\ YOk e ys' /\ (err st' = None -> BInv e st' /\ (stopped st' = true \/ wq st' = []))).
    { intros s y A1 A2 A3 A4 A5 E. destruct (err s) eqn:Es.
      - destruct f; cbn [handle_waker] in E; [|rewrite Es in E]; injection E as <- <-;
          (split; [exact A2|]; split; [exact A3|]); intros He; cbn in He; rewrite ?Es in He; discriminate.
      - exact (IH _ _ _ _ A1 A2 A3 A4 (fun _ => or_introl (A5 eq_refl)) E). }
    assert (Hvac : forall s, paused s = true -> err s = None -> BInv e s) by (intros s Hps _ _ Hp'; congruence).
    destruct i as [idx|g| | |].
    + (* WorkerAvailable *)
      set (st1 := if existsb _ (handles st0) then av_set st0 idx true else st0).
      assert (H1 : RInv st1 /\ lsts st1 = lsts st0 /\ stopped st1 = stopped st0).
      { unfold st1. destruct (existsb _ (handles st0)); [|auto]. split; [now apply RInv_av_set|].
        unfold av_set. destruct (set _ _ _); auto. }
      destruct H1 as (HR1 & El1 & Es1).
      assert (HW1 : WBl st1) by (eapply WBl_lsts; eauto).
      assert (Hs1 : stopped st1 = false) by (rewrite Es1; exact Hs).
      destruct (paused st1) eqn:Hpa.
      * intros E. exact (Hgo _ _ HR1 HW1 HY Hs1 (Hvac _ Hpa) E).
      * destruct (accept_all L st1 ys) as [s2 y2] eqn:Ea. destruct (accept_all_r L _ _ _ _ HR1 Ea) as [HR2 F2].
        destruct (accept_all_c e _ _ _ _ HR1 HW1 HY Hs1 Hpa Ea) as (HW2 & HY2 & HB2).
        pose proof (stopped_Fr1 _ _ F2) as Hs2. rewrite Hs1 in Hs2.
        intros E. exact (Hgo _ _ HR2 HW2 HY2 Hs2 HB2 E).
    + (* Worker(handle) *)
      destruct (nth_error (ws st0) g) as [w|].
      2:{ intros E; injection E as <- <-. split; [exact HW|]. split; [exact HY|]. intros He. cbn in He. rewrite Herr in He. discriminate. }
      set (st1 := set_handles (av_set st0 (w_idx w) true) (handles st0 ++ [g])).
      assert (H1 : RInv st1 /\ lsts st1 = lsts st0 /\ stopped st1 = stopped st0).
      { unfold st1. split; [eapply RInv_core; [|apply RInv_av_set; exact HR0]; reflexivity|].
        unfold av_set. destruct (set _ _ _); auto. }
      destruct H1 as (HR1 & El1 & Es1).
      assert (HW1 : WBl st1) by (eapply WBl_lsts; eauto).
      assert (Hs1 : stopped st1 = false) by (rewrite Es1; exact Hs).
      destruct (paused st1) eqn:Hpa.
      * intros E. exact (Hgo _ _ HR1 HW1 HY Hs1 (Hvac _ Hpa) E).
      * destruct (accept_all L st1 ys) as [s2 y2] eqn:Ea. destruct (accept_all_r L _ _ _ _ HR1 Ea) as [HR2 F2].
        destruct (accept_all_c e _ _ _ _ HR1 HW1 HY Hs1 Hpa Ea) as (HW2 & HY2 & HB2).
        pose proof (stopped_Fr1 _ _ F2) as Hs2. rewrite Hs1 in Hs2.
        intros E. exact (Hgo _ _ HR2 HW2 HY2 Hs2 HB2 E).
    + (* Pause *)
      set (st1 := if paused st0 then st0 else emit (deregister_all (set_paused st0 true)) EvPauseOn).
      assert (H1 : RInv st1 /\ WBl st1 /\ stopped st1 = false /\ paused st1 = true).
      { unfold st1. destruct (paused st0) eqn:Hp0; [auto|].
        split; [now apply RInv_pause|]. split; [apply WBl_deregister_all; exact HW|]. split; [exact Hs|reflexivity]. }
      destruct H1 as (HR1 & HW1 & Hs1 & Hp1).
      intros E. exact (Hgo _ _ HR1 HW1 HY Hs1 (Hvac _ Hp1) E).
    + (* Resume *)
      destruct (paused st0) eqn:Hpa.
      * set (st1 := emit (set_lsts (set_paused st0 false) (map register (lsts st0))) EvPauseOff).
        assert (HR1 : RInv st1) by now apply RInv_resume.
        assert (HW1 : WBl st1) by (apply WBl_register_all; exact HW).
        destruct (accept_all L st1 ys) as [s2 y2] eqn:Ea. destruct (accept_all_r L _ _ _ _ HR1 Ea) as [HR2 F2].
        destruct (accept_all_c e _ _ _ _ HR1 HW1 HY Hs eq_refl Ea) as (HW2 & HY2 & HB2).
        pose proof (stopped_Fr1 _ _ F2) as Hs2. change (stopped st1) with (stopped st) in Hs2. rewrite Hs in Hs2.
        intros E. exact (Hgo _ _ HR2 HW2 HY2 Hs2 HB2 E).
      * intros E. apply (IH _ _ _ _ HR0 HW0 HY Hs); [|exact E]. intros _.
        destruct HB as [HB|HB]; [left; exact HB|right]. cbn [existsb settles] in HB. exact HB.
    + (* Stop *)
      intros E; injection E as <- <-.
      split; [destruct (paused st); [exact HW|apply WBl_deregister_all; exact HW]|]. split; [exact HY|].
      intros _. split; [intros Hs'; discriminate Hs'|]. now left.
Qed.


(* ---------- every operation ---------- *)
Definition AInv (st : state) : Prop :=
  RInv st /\ WBl st /\ (err st = None -> BInv true st /\ WQ st).

Lemma YOk_true ys : nwb_ys ys = true -> YOk true ys.
Proof. intros H. split; [exact H|discriminate]. Qed.

Lemma process_timeout_a st : AInv st -> AInv (process_timeout st).
Proof.
  intros (HR & HW & HB). split; [now apply process_timeout_r|]. split; [now apply process_timeout_wbl|].
  destruct (process_timeout_fields st) as (_ & F2 & _ & F4 & F5 & _ & F7). rewrite F7. intros He.
  destruct (HB He) as [B Q]. split; [now apply process_timeout_cov|]. unfold WQ. rewrite F2, F4, F5. exact Q.
Qed.

Lemma WQ_of_Fr1 st st' : WQ st -> Fr1 st st' -> WQ st'.
Proof. intros HQ (_ & Fs & _ & Fw & _). eapply WQ_rel; eauto. Qed.

Lemma err_mono_accept_toks toks : forall st ys st' ys',
  accept_toks L st toks ys = (st', ys') -> err st' = None -> err st = None.
Proof.
  intros st ys st' ys' E He. destruct (err st) eqn:Hs; [|reflexivity]. exfalso.
  revert st ys st' ys' E He Hs. induction toks as [|t r IH]; intros st ys st' ys' E He Hs; cbn [accept_toks] in E.
  - injection E as <- <-. congruence.
  - destruct (accept L st t ys) as [s1 y1] eqn:Ea.
    assert (E1 : s1 = st).
    { unfold accept in Ea. destruct (paused st); [injection Ea as <- <-; reflexivity|]. unfold accept_fuel in Ea.
      destruct (nth_error (lsts st) t); cbn [accept_loop] in Ea; rewrite Hs in Ea; injection Ea as <- <-; reflexivity. }
    subst s1. eapply IH; eauto.
Qed.

Lemma step_a st o : nwb_op o = true -> AInv st -> AInv (step L st o).
Proof.
  intros Hwb (HR & HW & HB). pose proof (step_r L st o HR) as HR'.
  split; [exact HR'|]. clear HR'.
  destruct o as [eo|tok ys|ys| |ys|ms]; cbn [step nwb_op] in *.
  - (* environment, faults included *)
    destruct (env_step_cov_all (fun _ => False) st eo Hwb HW) as [HW1 HC1].
    destruct (env_step_private L st eo) as (_ & _ & Fa & Fe & _ & Fp & Fs).
    split; [exact HW1|]. rewrite Fe. intros He. destruct (HB He) as [B Q]. split.
    + intros Hs Hp Ha. rewrite Fs in Hs. rewrite Fp in Hp. rewrite Fa in Ha. apply HC1.
      * intros l Hin. exact (RInv_reg_or_to st l HR Hs Hp Hin).
      * exact (B Hs Hp Ha).
    + destruct (env_step_r L st eo HR) as [_ F]. eapply WQ_of_Fr1; eauto.
  - (* accept(tok) *)
    destruct (live st) eqn:Hlive; [|split; assumption]. destruct (live_true _ Hlive) as [Hst He].
    destruct (HB He) as [B Q].
    destruct (accept L st tok ys) as [s1 y1] eqn:Ea. cbn [fst].
    destruct (accept_r L _ _ _ _ _ HR Ea) as [HR1 F1].
    destruct (paused st) eqn:Hpa.
    { unfold accept in Ea. rewrite Hpa in Ea. injection Ea as <- <-. split; assumption. }
    destruct (available (av st)) eqn:Hav.
    2:{ assert (E1 : s1 = st).
        { unfold accept in Ea. rewrite Hpa in Ea. unfold accept_fuel in Ea.
          destruct (nth_error (lsts st) tok); cbn [accept_loop] in Ea; rewrite He, Hav in Ea; injection Ea as <- <-; reflexivity. }
        subst s1. split; assumption. }
    assert (HC0 : Cov true (fun t => t = tok \/ False) st).
    { intros t l _ Hl. exact (B Hst Hpa Hav t l (fun x => x) Hl). }
    destruct (accept_c true _ _ _ _ _ _ HR HW (YOk_true _ Hwb) Hst Hpa HC0 Ea) as (HW1 & _ & HC1 & HT1).
    split; [exact HW1|]. intros He1. split.
    + intros _ _ Ha t l _ Hl. destruct (Nat.eq_dec t tok) as [->|Hne]; [exact (HT1 He1 Ha l Hl)|].
      apply (HC1 t l); [tauto|exact Hl].
    + eapply WQ_of_Fr1; eauto.
  - (* handle_waker *)
    destruct (live st) eqn:Hlive; [|split; assumption]. destruct (live_true _ Hlive) as [Hst He].
    destruct (handle_waker L (handle_waker_fuel st ys) st ys) as [s1 y1] eqn:Eh. cbn [fst].
    destruct (handle_waker_c true _ _ _ _ _ HR HW (YOk_true _ Hwb) Hst (fun E => or_introl (proj1 (HB E))) Eh)
      as (HW1 & _ & HB1).
    split; [exact HW1|]. intros He1. destruct (HB1 He1) as [B1 Hend]. split; [exact B1|].
    intros Hs' Hne. destruct Hend; congruence.
  - (* process_timeout *)
    destruct (live st); [|split; assumption]. apply (process_timeout_a st). split; [exact HR|split; assumption].
  - (* Turn *)
    destruct (live st) eqn:Hlive; [|split; assumption]. destruct (live_true _ Hlive) as [Hst He].
    destruct (HB He) as [B Q].
    fold (turn_start st). set (st0 := turn_start st). set (toks := ready_toks 0 (lsts st)).
    assert (HR0 : RInv st0) by (apply RInv_turn_start; exact HR).
    assert (HW0 : WBl st0).
    { unfold WBl, st0, turn_start, clear_edges. cbn. apply Forall_map. eapply Forall_impl; [|exact HW]. intros l Hl. exact Hl. }
    destruct (accept_toks L st0 toks ys) as [s1 y1] eqn:Ea.
    destruct (accept_toks_r L _ _ _ _ _ HR0 Ea) as [HR1 F1].
    pose proof (stopped_Fr1 _ _ F1) as Hs1. change (stopped st0) with (stopped st) in Hs1. rewrite Hst in Hs1.
    (* after the accept calls for the reported listeners *)
    assert (A : WBl s1 /\ YOk true y1 /\ (err s1 = None -> BInv true s1)).
    { destruct (paused st) eqn:Hpa.
      - unfold toks in Ea. rewrite (ready_toks_unreg _ (RInv_paused_unreg _ HR Hpa)) in Ea. cbn [accept_toks] in Ea.
        injection Ea as <- <-. split; [exact HW0|]. split; [now apply YOk_true|]. intros _ _ Hp. cbn in Hp. congruence.
      - assert (HC0 : err st0 = None -> available (av st0) = true -> Cov true (fun t => In t toks \/ False) st0).
        { intros _ Ha t l Hnin. unfold st0, turn_start, clear_edges. cbn [lsts emit set_wq set_lsts].
          rewrite nth_error_map. destruct (nth_error (lsts st) t) as [l0|] eqn:E0; [|discriminate].
          cbn. intros E; injection E as <-.
          destruct (B Hst Hpa Ha t l0 (fun x => x) E0) as [H|[H|[(_ & Hr & Hed)|H]]].
          + left. exact H.
          + right; left. exact H.
          + destruct (l_backlog l0) eqn:Eb; [left; reflexivity|]. exfalso. apply Hnin. left.
            apply (ready_toks_in (lsts st) 0 t l0 E0 Hr Hed). congruence.
          + right; right; right. exact H. }
        destruct (accept_toks_c true toks (fun _ => False) _ _ _ _ HR0 HW0 (YOk_true _ Hwb) Hst Hpa HC0 Ea)
          as (HW1 & HY1 & HC1).
        split; [exact HW1|]. split; [exact HY1|]. intros He1 _ _ Ha t l _ Hl. exact (HC1 He1 Ha t l (fun x => x) Hl). }
    destruct A as (HW1 & HY1 & HB1).
    assert (Hfin : forall s, AInv s -> AInv (if live s then process_timeout s else s)).
    { intros s HA. destruct (live s); [now apply process_timeout_a|exact HA]. }
    destruct (wpend st) eqn:Hwk.
    + destruct (handle_waker L (handle_waker_fuel s1 y1) s1 y1) as [s2 y2] eqn:Eh.
      destruct (handle_waker_r L _ _ _ _ _ HR1 Eh) as [HR2 _].
      destruct (handle_waker_c true _ _ _ _ _ HR1 HW1 HY1 Hs1 (fun E => or_introl (HB1 E)) Eh) as (HW2 & _ & HB2).
      apply (Hfin s2). split; [exact HR2|]. split; [exact HW2|]. intros He2. destruct (HB2 He2) as [B2 Hend].
      split; [exact B2|]. intros Hs' Hne. destruct Hend; congruence.
    + apply (Hfin s1). split; [exact HR1|]. split; [exact HW1|]. intros He1. split; [exact (HB1 He1)|].
      intros _ Hne. destruct F1 as (_ & _ & _ & (ext & Hext & Hw) & _).
      assert (Hq0 : wq st = []).
      { destruct (wq st) eqn:Eq; [reflexivity|]. exfalso. assert (wpend st = true) by (apply Q; [exact Hst|congruence]). congruence. }
      change (wq st0) with (wq st) in Hext. rewrite Hq0 in Hext. cbn in Hext.
      destruct Hw as [[-> _]|Hw]; [congruence|exact Hw].
  - (* Advance *)
    split; [exact HW|]. exact HB.
Qed.

Lemma run_a os : forall st, forallb nwb_op os = true -> AInv st -> AInv (run L st os).
Proof.
  induction os as [|o os IH]; intros st Hwb HA; cbn [run fold_left]; [exact HA|].
  cbn [forallb] in Hwb. apply andb_true_iff in Hwb as [C1 C2]. apply IH; auto. now apply step_a.
Qed.

Lemma init_a W kinds : AInv (init W kinds).
Proof.
  split; [apply init_r|]. split; [|intros _; split].
  - unfold WBl, init. cbn. apply Forall_map, Forall_forall. intros k _ H. exact H.
  - intros _ _ _ t l _. unfold init. cbn. rewrite nth_error_map. destruct (nth_error kinds t); [|discriminate].
    cbn. intros E; injection E as <-. now left.
  - intros _ H. now destruct H.
Qed.

Theorem reachable_a W kinds os : forallb nwb_op os = true -> AInv (run L (init W kinds) os).
Proof. intros Hwb. apply run_a; [exact Hwb|apply init_a]. Qed.


(* ---------- the theorems ---------- *)
(* every state of every run: the loop has not failed; a non-empty waker queue has its waker edge pending; if the loop runs,
   is not paused and some worker is flagged available, a listener whose backlog is non-empty (and whose next accept() has no
   injected error pending) is registered with an unreported readiness edge, or is in back-off with its deadline at most
   500 ms away and the poll timeout armed (<= 510 ms) *)
Theorem no_strand_all W kinds os :
  1 <= W <= 512 -> forallb wf_op os = true -> forallb (tok_ok (length kinds)) os = true -> forallb nwb_op os = true ->
  let st := run L (init W kinds) os in
  err st = None /\
  (stopped st = false ->
   (wq st <> [] -> wpend st = true) /\
   forall tok l, nth_error (lsts st) tok = Some l ->
     paused st = false -> available (av st) = true -> l_backlog l <> [] -> l_inject l = [] ->
       (l_reg l = true /\ l_edge l = true) \/
       (exists d t, l_to l = Some d /\ (d <= now st + 500)%N /\ ptimeout st = Some t /\ (t <= 510)%N)).
Proof.
  intros HW Hwf Htok Hwb st. pose proof (no_panic_no_spin L W kinds os HW Hwf Htok) as He. fold st in He.
  destruct (reachable_a W kinds os Hwb) as (HR & _ & HB). fold st in HR, HB. destruct (HB He) as [B Q].
  split; [exact He|]. intros Hs. split; [now apply Q|].
  intros tok l Hl Hp Ha Hb Hi. pose proof (nth_error_In _ _ Hl) as Hin.
  destruct (B Hs Hp Ha tok l (fun x => x) Hl) as [H|[H|[(_ & Hr & Hed)|H]]]; try contradiction.
  - left. auto.
  - right. destruct (l_to l) as [d|] eqn:Et; [|congruence].
    destruct (RInv_armed st l d HR Hin Et) as (t & T1 & T2 & T3). exists d, t. auto.
Qed.

(* "as soon as one of its connections finishes" / "service resumes once the replacement is up": from ANY reachable state
   whose waker queue holds a release notice, a replacement handle or a command other than an unmatched Resume, one
   handle_waker call (nothing else running in between) leaves the loop stopped or paused, or with no worker flagged
   available any more (all saturated), or with EVERY listener's backlog empty — except listeners in back-off or whose next
   accept() is an injected error. *)
Theorem notice_drains W kinds os :
  forallb nwb_op os = true ->
  let st := run L (init W kinds) os in
  live st = true -> existsb settles (wq st) = true ->
  let st' := step L st (HandleWaker []) in
  err st' = None ->
  (stopped st' = true \/ wq st' = []) /\
  (stopped st' = false -> paused st' = false -> available (av st') = true ->
   forall tok l, nth_error (lsts st') tok = Some l -> l_backlog l = [] \/ l_inject l <> [] \/ l_to l <> None).
Proof.
  intros Hwb st Hlive Hset st' He'. destruct (reachable_a W kinds os Hwb) as (HR & HWB & _). fold st in HR, HWB.
  destruct (live_true _ Hlive) as [Hst He].
  unfold st' in *. cbn [step] in *. rewrite Hlive in *.
  destruct (handle_waker L (handle_waker_fuel st []) st []) as [s1 y1] eqn:Eh. cbn [fst] in *.
  assert (HY : YOk false []) by (split; [reflexivity|reflexivity]).
  destruct (handle_waker_c false _ _ _ _ _ HR HWB HY Hst (fun _ => or_intror Hset) Eh) as (_ & _ & HB1).
  destruct (HB1 He') as [B1 Hend]. split; [exact Hend|].
  intros Hs Hp Ha tok l Hl. destruct (B1 Hs Hp Ha tok l (fun x => x) Hl) as [H|[H|[(H & _)|H]]]; auto. discriminate.
Qed.


Corollary worker_handle_drains W kinds os g :
  forallb nwb_op os = true ->
  let st := run L (init W kinds) os in
  live st = true -> In (IWorker g) (wq st) ->
  let st' := step L st (HandleWaker []) in
  err st' = None ->
  (stopped st' = true \/ wq st' = []) /\
  (stopped st' = false -> paused st' = false -> available (av st') = true ->
   forall tok l, nth_error (lsts st') tok = Some l -> l_backlog l = [] \/ l_inject l <> [] \/ l_to l <> None).
Proof.
  intros Hwb st Hlive Hin. apply notice_drains; auto.
  apply existsb_exists. exists (IWorker g). split; [exact Hin|reflexivity].
Qed.

End S.

(* ---------- commands take effect in the order they were issued ---------- *)
Lemma final_paused_pause_last p q : final_paused p (q ++ [IPause]) = true.
Proof. revert p; induction q as [|i q IH]; intros p; cbn; [reflexivity|apply IH]. Qed.

Lemma commands_in_order (L : Z) fuel st st' ys' :
  handle_waker L fuel st [] = (st', ys') -> ~ In IStop (wq st) -> err st' = None ->
  paused st' = final_paused (paused st) (wq st) /\ wq st' = [].
Proof.
  intros H Hns He. destruct (handle_waker_q L _ _ _ _ H Hns) as (_ & _ & _ & _ & Hq).
  destruct (Hq He) as (A & _ & B & _). auto.
Qed.

Lemma last_command_wins p q :
  final_paused p (q ++ [IPause]) = true /\ final_paused p (q ++ [IResume]) = false.
Proof. split; [apply final_paused_pause_last|apply final_paused_resume_last]. Qed.
